package main

// C10 — a client call only ever returns a response to its own transaction.

import (
	"fmt"
	"go/token"
	"go/types"
	"strings"

	"golang.org/x/tools/go/ssa"
)

func init() { register("C10", true, checkC10) }

func checkC10(c *Ctx) {
	r := c.R
	r.Decides = append(r.Decides,
		"K1 routing key: the receive loop delivers the decoded message itself on the channel found under pending[msg.TransactionID]",
		"K2 filters: delivery is reachable only through decode success, (v4) OpCode==BootReply and (v4) ifaceHWAddr==nil or equal to the message's; v6 decodes with MessageFromBytes",
		"K3 registration: lookup and store of pending[msg.TransactionID] in one critical section, present ⇒ error without store/transmit, store dominates WriteTo",
		"K4 matcher: the response is the packet received from the channel returned by send, stored only under match==nil or match(packet)",
		"K5 lock discipline: every access to pending happens with pendingMu held on all paths; Lock/Unlock balanced at every return; no double acquisition",
		"K6 confinement: Client fields are written only in the constructor and in ClientOpt closures; closed only through sync/atomic; exactly one go of the receive loop, not in a loop",
		"K7 per-datagram isolation: read buffer allocated inside the loop, decoder gets b[:n], decoded message does not alias it (E3)",
		"K8 a transaction channel is closed only under the lock together with the deletion of its entry",
		"K9 slice-typed Client state (the hardware address used by the filter) is never returned, stored or sent, and never written through (copy destination, element store, append onto a re-slice): accessors hand out copies and leave the state alone",
		"C11-K3 (shared) cancel pairing on every exit of send/SendAndRead: a failed or finished call leaves no entry behind that later datagrams could be routed to")
	r.NotDecided = append(r.NotDecided, "linearizability over schedules", "FIFO delivery beyond one producer goroutine and one channel per transaction",
		"data races in code outside the lock/confinement rules (user loggers, PacketConn implementations)")
	r.Expect("C10-clients", 2)
	// the v4 hardware-address filter compares msg.ClientHWAddr: the decoder must deliver the first min(hlen,16)
	// bytes of chaddr, not a shorter prefix (shared with C04-K1/K3)
	c04Header(c)
	for _, short := range []string{"nclient4", "nclient6"} {
		a := resolveClientAnchors(c, short)
		if len(a.errs) > 0 {
			r.Undecided("C10-anchor", short+": "+strings.Join(a.errs, "; "), "-", "role-based anchors did not resolve")
			continue
		}
		r.Count("C10-clients", 1)
		c10RecvLoop(c, a)
		c10Send(c, a)
		c10Matcher(c, a)
		c10Locks(c, a)
		c10Confinement(c, a)
		c11Wait(c, a)
		c11Cancel(c, a)
	}
}

// nilEdges: for an If on `x == nil` / `x != nil` returns (edge where x is nil, edge where x is non-nil)
func nilEdgesOf(iff *ssa.If, isX func(ssa.Value) bool) (nilE, nonNilE Edge, ok bool) {
	b, isBin := iff.Cond.(*ssa.BinOp)
	if !isBin || (b.Op != token.EQL && b.Op != token.NEQ) {
		return
	}
	isNil := func(v ssa.Value) bool { k, ok := v.(*ssa.Const); return ok && k.Value == nil }
	var x ssa.Value
	if isNil(b.Y) {
		x = b.X
	} else if isNil(b.X) {
		x = b.Y
	} else {
		return
	}
	if !isX(x) {
		return
	}
	t, f := Edge{iff.Block(), iff.Block().Succs[0]}, Edge{iff.Block(), iff.Block().Succs[1]}
	if b.Op == token.EQL {
		return t, f, true
	}
	return f, t, true
}

// boolEdges: for an If on a boolean value v (possibly negated) returns (edge where v true, edge where v false)
func boolEdgesOf(iff *ssa.If, isV func(ssa.Value) bool) (tE, fE Edge, ok bool) {
	t, f := Edge{iff.Block(), iff.Block().Succs[0]}, Edge{iff.Block(), iff.Block().Succs[1]}
	v := iff.Cond
	if u, isU := v.(*ssa.UnOp); isU && u.Op == token.NOT {
		v = u.X
		t, f = f, t
	}
	if !isV(v) {
		return
	}
	return t, f, true
}

func c10RecvLoop(c *Ctx, a *clientAnchors) {
	r, sx, fn := c.R, c.Sx(), a.recvLoop
	key := func(s string) string { return a.short + ".receiveLoop: " + s }
	read := hasReadFromInCycle(fn)
	loop := sccOf(read.Block())
	// decode call
	var dec *ssa.Call
	allInstrs(fn, func(in ssa.Instruction) {
		if cl, ok := in.(*ssa.Call); ok && loop[cl.Block()] {
			if f := cl.Call.StaticCallee(); f != nil && pkgPathOf(f) == a.decPkg && len(cl.Call.Args) == 1 && isByteSlice(cl.Call.Args[0].Type()) {
				if dec != nil {
					r.Undecided("C10-K2", key("several decode calls"), c.P.ipos(cl), "")
				}
				dec = cl
			}
		}
	})
	if dec == nil {
		r.Undecided("C10-K2", key("decode call"), c.P.ipos(read), "no call of a "+a.decPkg+" decoder on []byte inside the loop")
		return
	}
	r.Check(dec.Call.StaticCallee().Name() == a.decName, "C10-K2", key("decoder is "+a.decName), c.P.ipos(dec), "resolved callee",
		"the receive loop decodes with "+dec.Call.StaticCallee().Name()+" instead of "+a.decName+" (v6: relay messages must never be routed to a transaction)")
	// K7 buffer
	bufArg := read.Call.Args[0]
	mkI := freshBufferSite(bufArg)
	if mkI != nil && !loop[mkI.Block()] {
		why := hoistedBufferSafe(c, read, dec, mkI)
		r.Check(why == "", "C10-K7", key("read buffer allocated inside loop, or shared by nothing that outlives the iteration"), c.P.ipos(read), "E3: the decoder keeps no memory of its input; the buffer is only read into, decoded from, measured and copied from",
			"the receive buffer is not allocated per datagram and "+why+": a decoded message handed to a caller could be overwritten by the next read")
	} else {
		r.Check(mkI != nil && loop[mkI.Block()], "C10-K7", key("read buffer allocated inside loop"), c.P.ipos(read), "MakeSlice on the loop cycle",
			"the receive buffer is not allocated per datagram: a decoded message handed to a caller could be overwritten by the next read")
	}
	// the buffer holds a full-size datagram: its constant length is at least 1500 (an Ethernet-MTU reply; the
	// DHCPv4 client announces exactly that in option 57), so no well-formed reply is truncated and dropped
	if mkI != nil {
		size := int64(-1)
		switch x := mkI.(type) {
		case *ssa.MakeSlice:
			if k, ok := intConst(x.Len); ok {
				size = k
			}
		case *ssa.Alloc:
			if arr, ok := x.Type().(*types.Pointer).Elem().Underlying().(*types.Array); ok {
				size = arr.Len()
				if sl, ok := bufArg.(*ssa.Slice); ok && sl.High != nil {
					if k, ok := intConst(sl.High); ok {
						size = k
					}
				}
			}
		}
		if size < 0 {
			r.Undecided("C10-K7", key("read buffer has a constant size"), c.P.ipos(read), "the length of the receive buffer is not a constant")
		} else {
			r.Check(size >= minReceiveBuffer, "C10-K7", key(fmt.Sprintf("read buffer holds a full-size datagram (>= %d bytes)", minReceiveBuffer)), c.P.ipos(read), fmt.Sprintf("constant length %d", size),
				fmt.Sprintf("the receive buffer is %d bytes: a well-formed reply of up to %d bytes (what a 1500-byte MTU carries and what the v4 client announces in option 57) is truncated by ReadFrom, fails to decode and is dropped", size, minReceiveBuffer))
		}
	}
	n := extractOf(read, 0)
	if n != nil {
		want := "slice(" + sx.Of(bufArg).String() + ",const(_)," + sx.Of(n).String() + ",const(_))"
		got := sx.Of(dec.Call.Args[0]).String()
		r.Check(got == want, "C10-K7", key("decoder receives b[:n]"), c.P.ipos(dec), "symx", "decoder argument is "+got+", want "+want)
	}
	for _, f := range getE3(c).retentionFindings(dec.Call.StaticCallee(), 0) {
		r.Violation("C10-K7", key("decoded message aliases the read buffer: "+f.short), f.pos, f.detail)
	}
	msg := extractOf(dec, 0)
	decErr := extractOf(dec, 1)
	if msg == nil || decErr == nil {
		r.Undecided("C10-K2", key("decode results"), c.P.ipos(dec), "decoder results are not both used")
		return
	}
	// the delivering select
	var sel *ssa.Select
	var sendState *ssa.SelectState
	allInstrs(fn, func(in ssa.Instruction) {
		if s, ok := in.(*ssa.Select); ok {
			for _, stt := range s.States {
				if stt.Dir == types.SendOnly {
					if sel != nil && sel != s {
						r.Undecided("C10-K1", key("several delivering selects"), c.P.ipos(s), "")
					}
					sel, sendState = s, stt
				}
			}
		}
		if s, ok := in.(*ssa.Send); ok {
			r.Violation("C10-K1", key("unconditional channel send"), c.P.ipos(s), "delivery outside a select with the entry's done channel can block the receive loop forever while it holds the lock")
		}
	})
	// the delivering select may sit in an unexported helper called from the loop (deliver(p, msg)): its
	// expressions are rewritten in the loop's terms (parameters replaced by the arguments of the call)
	rew := func(s string) string { return s }
	selIn := fn
	var deliverCall *ssa.Call
	if sel == nil {
		allInstrs(fn, func(in ssa.Instruction) {
			cl, ok := in.(*ssa.Call)
			if !ok || !loop[cl.Block()] || sel != nil {
				return
			}
			g := cl.Call.StaticCallee()
			if g == nil || g.Blocks == nil || funcPkg(g) != a.pkg.Pkg || token.IsExported(g.Name()) || hasNonCallRef(g) {
				return
			}
			allInstrs(g, func(i2 ssa.Instruction) {
				if s2, ok := i2.(*ssa.Select); ok {
					for _, stt := range s2.States {
						if stt.Dir == types.SendOnly {
							sel, sendState, selIn, deliverCall = s2, stt, g, cl
						}
					}
				}
			})
		})
		if sel != nil {
			g, cl := selIn, deliverCall
			subst := map[string]string{}
			for i, p := range g.Params {
				if i < len(cl.Call.Args) {
					subst[sx.Of(p).String()] = sx.Of(cl.Call.Args[i]).String()
				}
			}
			rew = func(s string) string {
				for from, to := range subst {
					s = strings.ReplaceAll(s, from, to)
				}
				return s
			}
			a.deliverFn, a.deliverCall = g, cl
			// the helper has exactly one call site
			n := 0
			for _, h := range a.pkgFuncs(c.P) {
				allInstrs(h, func(i3 ssa.Instruction) {
					if ci, ok := i3.(ssa.CallInstruction); ok && ci.Common().StaticCallee() == g {
						n++
					}
				})
			}
			r.Check(n == 1, "C10-K1", key("the delivery helper "+g.Name()+" is called only from the receive loop"), c.P.ipos(cl), "single call site", fmt.Sprintf("%d call sites", n))
		}
	}
	if sel == nil {
		r.Undecided("C10-K1", key("delivery"), c.P.ipos(read), "no select with a send case found")
		return
	}
	// K1: key, channel and value
	msgSx := sx.Of(msg).String()
	lookWant := "lookup(field[pending](" // prefix
	chS := rew(sx.Of(sendState.Chan).String())
	keyWant := "field[TransactionID](" + msgSx + ")"
	okCh := strings.HasPrefix(chS, "field[ch](extract[0]("+lookWant) && strings.Contains(chS, ","+keyWant+")")
	r.Check(okCh, "C10-K1", key("delivery channel is pending[msg.TransactionID].ch"), c.P.ipos(sel), "symx", "channel is "+chS+"; want field ch of the entry looked up under "+keyWant)
	r.Check(rew(sx.Of(sendState.Send).String()) == msgSx, "C10-K1", key("delivered value is the decoded message"), c.P.ipos(sel), "symx", "value sent is "+rew(sx.Of(sendState.Send).String())+", want "+msgSx)
	// the other select state must be a receive on the same entry's done
	hasDone := false
	for _, stt := range sel.States {
		if stt.Dir == types.RecvOnly {
			s := rew(sx.Of(stt.Chan).String())
			if strings.HasPrefix(s, "field[done](extract[0]("+lookWant) && strings.Contains(s, ","+keyWant+")") {
				hasDone = true
			}
		}
	}
	// nothing else can end the delivery: a further case (a timer, the client's done, a default) takes a datagram that
	// passed every filter away from the call it belongs to
	r.Check(len(sel.States) == 2, "C10-K2", key("the delivery waits only for the reader or for the reader's departure"), c.P.ipos(sel), "the delivering select has exactly the send case and the entry's done case",
		fmt.Sprintf("the delivering select has %d cases: besides handing the message to its call and noticing that the call is gone there is another way out, on which a reply that arrived while the call was waiting is dropped", len(sel.States)))
	r.Check(hasDone && sel.Blocking, "C10-K1", key("delivery select also waits on the entry's done"), c.P.ipos(sel), "symx",
		"the delivering select has no receive case on the same entry's done channel: a caller that stopped listening blocks the loop")
	// present-edge: select only if ok
	sb := sel.Block()
	if deliverCall != nil {
		sb = deliverCall.Block() // the filters guard the call of the delivery helper
	}
	var look *ssa.Lookup
	allInstrs(fn, func(in ssa.Instruction) {
		if l, ok := in.(*ssa.Lookup); ok && l.CommaOk && a.isClientFieldLoad(l.X, "pending") {
			look = l
		}
	})
	// atoms of the split graph (sgraph.go): conditions are recognised whether they are tested by nested ifs,
	// by `a && b`, or as switch cases
	atoms := atomsIn(fn)
	// calleePass: the result of an unexported boolean helper being `val` guarantees pred: every way the helper
	// can return val passes, inside the helper, an edge on which pred holds (disjunctions such as
	// "no address configured or addresses equal" have no single atom, but every path has one of them)
	calleePass := func(x atomFact, pred func(atomFact) bool) bool {
		cl, ok := x.v.(*ssa.Call)
		if !ok {
			return false
		}
		g := cl.Call.StaticCallee()
		if g == nil || g.Blocks == nil || funcPkg(g) != a.pkg.Pkg || token.IsExported(g.Name()) || g.Signature.Results().Len() != 1 {
			return false
		}
		any := func(as []atomFact) bool {
			for _, y := range as {
				if pred(y) {
					return true
				}
			}
			return false
		}
		n := 0
		for _, ret := range returnsOf(g) {
			if k, isK := boolConst(ret.Results[0]); isK && k != x.val {
				continue
			}
			n++
			if mustPassAtoms(g, ret.Block(), any) {
				continue
			}
			if _, isK := boolConst(ret.Results[0]); !isK && any(impliedAtoms(ret.Results[0], x.val, 0)) {
				continue
			}
			return false
		}
		return n > 0
	}
	passOnly := func(pred func(atomFact) bool) bool {
		return mustPassAtoms(fn, sb, func(as []atomFact) bool {
			for _, x := range as {
				if pred(x) || calleePass(x, pred) {
					return true
				}
			}
			return false
		})
	}
	exists := func(pred func(atomFact) bool) bool {
		for _, x := range atoms {
			if pred(x) {
				return true
			}
			if cl, ok := x.v.(*ssa.Call); ok {
				if g := cl.Call.StaticCallee(); g != nil && g.Blocks != nil && funcPkg(g) == a.pkg.Pkg && !token.IsExported(g.Name()) {
					for _, y := range atomsIn(g) {
						if pred(y) {
							return true
						}
					}
				}
			}
		}
		return false
	}
	// sxIn: symx of a value in the loop's terms; a value of a helper called from the loop (atoms reached through
	// a boolean helper such as isForUs(msg)) has the helper's parameters replaced by the arguments of its call
	substOf := map[*ssa.Function]map[string]string{}
	sxIn := func(v ssa.Value) string {
		str := sx.Of(v).String()
		in, ok := v.(ssa.Instruction)
		if !ok || in.Parent() == nil || in.Parent() == fn {
			return str
		}
		g := in.Parent()
		sub, done := substOf[g]
		if !done {
			sub = map[string]string{}
			allInstrs(fn, func(i2 ssa.Instruction) {
				if cl, ok := i2.(*ssa.Call); ok && cl.Call.StaticCallee() == g {
					for i, p := range g.Params {
						if i < len(cl.Call.Args) {
							sub[sx.Of(p).String()] = sx.Of(cl.Call.Args[i]).String()
						}
					}
				}
			})
			substOf[g] = sub
		}
		for from, to := range sub {
			str = strings.ReplaceAll(str, from, to)
		}
		return str
	}
	isNilC := func(v ssa.Value) bool { k, ok := v.(*ssa.Const); return ok && k.Value == nil }
	// nilAtom: x is `v == nil` / `v != nil` for a v satisfying isV; returns whether the atom (with its value) means v is nil
	nilAtom := func(x atomFact, isV func(ssa.Value) bool) (isNil bool, ok bool) {
		bo, isBo := x.v.(*ssa.BinOp)
		if !isBo || (bo.Op != token.EQL && bo.Op != token.NEQ) {
			return false, false
		}
		var v ssa.Value
		if isNilC(bo.Y) {
			v = bo.X
		} else if isNilC(bo.X) {
			v = bo.Y
		} else {
			return false, false
		}
		if !isV(v) {
			return false, false
		}
		return (bo.Op == token.EQL) == x.val, true
	}
	if look != nil {
		okv := extractOf(look, 1)
		present := func(x atomFact) bool { return okv != nil && x.v == ssa.Value(okv) && x.val }
		if okv == nil || !exists(func(x atomFact) bool { return x.v == ssa.Value(okv) }) {
			r.Violation("C10-K1", key("presence of the entry not tested"), c.P.ipos(look), "the comma-ok result of the pending lookup is not branched on")
		} else {
			r.Check(passOnly(present), "C10-K1", key("delivery only when the entry is present"), c.P.ipos(look), "select unreachable without an edge on which ok is true", "delivery reachable although the lookup did not find an entry")
		}
	}
	// K2 filters
	isDecErr := func(v ssa.Value) bool { return v == ssa.Value(decErr) }
	decOKAtom := func(x atomFact) bool { n, ok := nilAtom(x, isDecErr); return ok && n }
	if !exists(func(x atomFact) bool { _, ok := nilAtom(x, isDecErr); return ok }) {
		r.Violation("C10-K2", key("decode error not tested"), c.P.ipos(dec), "the decoder's error is not branched on before delivery")
	} else {
		r.Check(passOnly(decOKAtom), "C10-K2", key("delivery only after decode success"), c.P.ipos(dec), "select unreachable without an edge on which err == nil", "a datagram that failed to decode can reach delivery")
	}
	if a.short == "nclient4" {
		// opcode: an atom comparing msg.OpCode with BOOTREPLY (2)
		opf := "field[OpCode](" + msgSx + ")"
		opAtom := func(x atomFact) (isReply bool, ok bool) {
			bo, isBo := x.v.(*ssa.BinOp)
			if !isBo || (bo.Op != token.EQL && bo.Op != token.NEQ) {
				return false, false
			}
			xs, ys := sxIn(bo.X), sxIn(bo.Y)
			if !((xs == opf && ys == "const(2)") || (ys == opf && xs == "const(2)")) {
				return false, false
			}
			return (bo.Op == token.EQL) == x.val, true
		}
		if !exists(func(x atomFact) bool { _, ok := opAtom(x); return ok }) {
			r.Violation("C10-K2", key("opcode filter missing"), c.P.ipos(dec), "no comparison of msg.OpCode with OpcodeBootReply (2) guards delivery")
		} else {
			r.Check(passOnly(func(x atomFact) bool { y, ok := opAtom(x); return ok && y }), "C10-K2", key("delivery only for BOOTREPLY"), c.P.ipos(dec), "select unreachable without an edge on which OpCode == BootReply", "a message whose opcode is not BOOTREPLY can reach delivery")
		}
		// hardware address: delivery needs ifaceHWAddr == nil or bytes.Equal(ifaceHWAddr, msg.ClientHWAddr)
		isHW := func(v ssa.Value) bool {
			if ct, ok := v.(*ssa.ChangeType); ok {
				v = ct.X
			}
			return a.isClientFieldLoad(v, "ifaceHWAddr")
		}
		eqAtom := func(x atomFact) (isEq bool, ok bool) {
			cl, isCl := x.v.(*ssa.Call)
			if !isCl || !isFuncCall(cl.Common(), "bytes", "Equal") {
				return false, false
			}
			s0, s1 := sxIn(cl.Call.Args[0]), sxIn(cl.Call.Args[1])
			hw := "field[ClientHWAddr](" + msgSx + ")"
			if !((s0 == hw && isHW(cl.Call.Args[1])) || (s1 == hw && isHW(cl.Call.Args[0]))) {
				return false, false
			}
			return x.val, true
		}
		if !exists(func(x atomFact) bool { _, ok := eqAtom(x); return ok }) {
			r.Violation("C10-K2", key("hardware-address filter missing"), c.P.ipos(dec), "no bytes.Equal(c.ifaceHWAddr, msg.ClientHWAddr) guards delivery")
		} else {
			r.Check(passOnly(func(x atomFact) bool {
				if y, ok := eqAtom(x); ok && y {
					return true
				}
				if n, ok := nilAtom(x, isHW); ok && n {
					return true
				}
				return false
			}), "C10-K2", key("delivery only for the client's hardware address (or none configured)"), c.P.ipos(sel),
				"select unreachable without an edge on which ifaceHWAddr == nil or Equal is true", "a reply for another hardware address can reach delivery")
		}
	}
	// K2c: no filter beyond the stated ones — from the read, every way back to the next read that avoids the
	// delivery takes an edge on which one of the stated rejections holds (decode error, (v4) opcode is not
	// BOOTREPLY, (v4) hardware address differs, no entry for the transaction id). Anything else drops a reply
	// the property says is delivered.
	{
		okvV := ssa.Value(nil)
		if look != nil {
			if e := extractOf(look, 1); e != nil {
				okvV = e
			}
		}
		msgSx2 := msgSx
		reject := func(x atomFact) bool {
			if n, ok := nilAtom(x, isDecErr); ok && !n {
				return true
			}
			if okvV != nil && x.v == okvV && !x.val {
				return true
			}
			if a.short == "nclient4" {
				if bo, isBo := x.v.(*ssa.BinOp); isBo && (bo.Op == token.EQL || bo.Op == token.NEQ) {
					opf := "field[OpCode](" + msgSx2 + ")"
					xs, ys := sxIn(bo.X), sxIn(bo.Y)
					if (xs == opf && ys == "const(2)") || (ys == opf && xs == "const(2)") {
						return ((bo.Op == token.EQL) == x.val) == false
					}
				}
				if cl, isCl := x.v.(*ssa.Call); isCl && isFuncCall(cl.Common(), "bytes", "Equal") && !x.val {
					hw := "field[ClientHWAddr](" + msgSx2 + ")"
					if sxIn(cl.Call.Args[0]) == hw || sxIn(cl.Call.Args[1]) == hw {
						return true
					}
				}
			}
			return false
		}
		rejectEdge := func(as []atomFact) bool {
			for _, x := range as {
				if reject(x) || calleePass(x, reject) {
					return true
				}
			}
			return false
		}
		rb := read.Block()
		start := sNode{rb, -1}
		seen := map[sNode]bool{start: true}
		stack := []sNode{start}
		var bad *ssa.BasicBlock
		for len(stack) > 0 && bad == nil {
			n := stack[len(stack)-1]
			stack = stack[:len(stack)-1]
			ns, as := sSuccs(n)
			for i, sn := range ns {
				if sn.b == sb || (as[i] != nil && rejectEdge(as[i])) {
					continue
				}
				if sn.b == rb {
					bad = n.b
					break
				}
				if !seen[sn] {
					seen[sn] = true
					stack = append(stack, sn)
				}
			}
		}
		if bad == nil && deliverCall != nil && selIn != fn {
			// inside the delivery helper: every path from its entry to a return passes the select, unless it tests a
			// boolean parameter bound to the lookup's ok
			g := selIn
			okParam := map[ssa.Value]bool{}
			for i, p := range g.Params {
				if i < len(deliverCall.Call.Args) && okvV != nil && deliverCall.Call.Args[i] == okvV {
					okParam[p] = true
				}
			}
			allInstrs(g, func(i4 ssa.Instruction) {
				if l, ok := i4.(*ssa.Lookup); ok && l.CommaOk && a.isClientFieldLoad(l.X, "pending") {
					if e := extractOf(l, 1); e != nil {
						okParam[e] = true
					}
				}
			})
			hs := sNode{g.Blocks[0], -1}
			hseen := map[sNode]bool{hs: true}
			hst := []sNode{hs}
			for len(hst) > 0 && bad == nil {
				n := hst[len(hst)-1]
				hst = hst[:len(hst)-1]
				if n.b == sel.Block() {
					continue
				}
				if _, isRet := n.b.Instrs[len(n.b.Instrs)-1].(*ssa.Return); isRet {
					bad = n.b
					break
				}
				ns, as := sSuccs(n)
				for i, sn := range ns {
					rej := false
					for _, x := range as[i] {
						if okParam[x.v] && !x.val {
							rej = true
						}
					}
					if sn.b == sel.Block() || rej {
						continue
					}
					if !hseen[sn] {
						hseen[sn] = true
						hst = append(hst, sn)
					}
				}
			}
		}
		where := c.P.ipos(read)
		detail := ""
		if bad != nil {
			where = c.P.ipos(bad.Instrs[len(bad.Instrs)-1])
			detail = "the loop returns to the read from here without delivering and without any of the stated rejections having been taken: a reply that decodes, passes the filters and has a registered transaction is dropped"
		}
		r.Check(bad == nil, "C10-K2", key("no datagram is dropped for a reason other than the stated filters"), where, "split-graph walk read → next read avoiding the delivery: every path takes a rejection edge", detail)
	}
	// K8: close(p.ch) only with delete, under lock
	k8fns := []*ssa.Function{fn}
	if selIn != fn {
		k8fns = append(k8fns, selIn)
	}
	for _, kf := range k8fns {
		li := a.lockFlow(kf)
		allInstrs(kf, func(in ssa.Instruction) {
			cl, ok := in.(*ssa.Call)
			if !ok {
				return
			}
			if isBuiltinCall(cl.Common(), "close") {
				r.Check(li.must[in], "C10-K8", key("close of transaction channel under the lock"), c.P.ipos(in), "must-hold", "a transaction channel is closed without pendingMu held")
				// a delete on pending follows in the same block
				hasDel := false
				for _, x := range cl.Block().Instrs[instrIndex(cl):] {
					if d, ok := x.(*ssa.Call); ok && isBuiltinCall(d.Common(), "delete") && a.isClientFieldLoad(d.Call.Args[0], "pending") {
						ks := sx.Of(d.Call.Args[1]).String()
						if kf != fn {
							ks = rew(ks)
						}
						hasDel = ks == keyWant
					}
				}
				r.Check(hasDel, "C10-K8", key("close of transaction channel together with deletion of its entry"), c.P.ipos(in), "delete(pending, msg.TransactionID) in the same block",
					"the channel is closed but its entry stays in pending: a later delivery would send on a closed channel")
			}
		})
	}
	// K8 census: a transaction channel is closed nowhere else in the package — only by the owner's cancel (after
	// close(done)) and by the loop's `<-p.done` case above (the owner is gone). A close anywhere else hands the
	// zero message to a call that is still waiting: it returns (nil, nil) or its matcher dereferences nil.
	{
		allowed := map[*ssa.Function]bool{fn: true, selIn: true}
		if a.cancel != nil {
			allowed[a.cancel] = true
		}
		if a.closeFn != nil {
			allowed[a.closeFn] = true // closes the client's own done channel (C11-K6)
		}
		// an unexported helper that closes (retire(p, id), dropEntry(…)) is accepted when every one of its call sites lies
		// in an accepted function; inside the loop its call is then judged like the close itself (done-case only)
		closers := map[*ssa.Function]bool{}
		inPkg := func(g *ssa.Function) bool {
			pk := g
			for pk.Parent() != nil {
				pk = pk.Parent()
			}
			return pk.Pkg == a.pkg
		}
		for _, g := range c.P.ModuleFuncs() {
			if !inPkg(g) || allowed[g] {
				continue
			}
			allInstrs(g, func(in ssa.Instruction) {
				if cl, ok := in.(*ssa.Call); ok && isBuiltinCall(cl.Common(), "close") {
					closers[g] = true
				}
			})
		}
		helperOK := map[*ssa.Function]bool{}
		for g := range closers {
			if g.Parent() != nil || (g.Object() != nil && g.Object().Exported()) {
				continue
			}
			okAll, nSites := true, 0
			for _, h := range c.P.ModuleFuncs() {
				allInstrs(h, func(in ssa.Instruction) {
					if ci, ok := in.(ssa.CallInstruction); ok && ci.Common().StaticCallee() == g {
						nSites++
						if _, isCall := in.(*ssa.Call); !isCall || !allowed[h] {
							okAll = false
						}
					}
				})
			}
			if okAll && nSites > 0 {
				helperOK[g] = true
			}
		}
		isCloseLike := func(cl *ssa.Call) bool {
			if isBuiltinCall(cl.Common(), "close") {
				return true
			}
			g := cl.Call.StaticCallee()
			return g != nil && helperOK[g]
		}
		nClose := 0
		for _, g := range c.P.ModuleFuncs() {
			if helperOK[g] {
				continue
			}
			if g.Pkg != a.pkg && (g.Parent() == nil || g.Parent().Pkg != a.pkg) {
				pk := g
				for pk.Parent() != nil {
					pk = pk.Parent()
				}
				if pk.Pkg != a.pkg {
					continue
				}
			}
			allInstrs(g, func(in ssa.Instruction) {
				cl, ok := in.(*ssa.Call)
				if !ok || !isBuiltinCall(cl.Common(), "close") {
					return
				}
				nClose++
				if allowed[g] {
					return
				}
				r.Violation("C10-K8", key("a channel is closed outside cancel, Close and the loop's done-case: "+shortName(g)), c.P.ipos(in),
					"close("+sx.Of(cl.Call.Args[0]).String()+"): a call still waiting on its transaction channel receives the zero message and returns (nil, nil); only the owner's cancel and the loop's `<-p.done` case may close it")
			})
		}
		r.Count("C10-K8-close-sites", nClose)
		// in the loop, the close sits on the `<-p.done` case of the delivering select
		for _, kf := range k8fns {
			allInstrs(kf, func(in ssa.Instruction) {
				cl, ok := in.(*ssa.Call)
				if !ok || !isCloseLike(cl) {
					return
				}
				onDone := false
				allInstrs(kf, func(x ssa.Instruction) {
					sel, ok := x.(*ssa.Select)
					if !ok {
						return
					}
					for i, st := range sel.States {
						if st.Dir != types.RecvOnly || !strings.Contains(sx.Of(st.Chan).String(), "field[done]") {
							continue
						}
						idx := extractOf(sel, 0)
						if idx == nil {
							continue
						}
						want := int64(i)
						if mustPassAtoms(kf, cl.Block(), func(as []atomFact) bool {
							for _, af := range as {
								if bo, ok := af.v.(*ssa.BinOp); ok && bo.Op == token.EQL && af.val {
									if k, isK := intConst(bo.Y); isK && k == want && bo.X == ssa.Value(idx) {
										return true
									}
								}
							}
							return false
						}) {
							onDone = true
						}
					}
				})
				r.Check(onDone, "C10-K8", key("the loop closes a transaction channel only on the entry's done-case"), c.P.ipos(in), "close(p.ch) is reached only through the `<-p.done` case of the delivering select", "the receive loop closes a transaction channel although its owner has not finished")
			})
		}
	}
	// loop exits: only on read error
	readErr := extractOf(read, 2)
	for b := range loop {
		for _, s := range b.Succs {
			if loop[s] {
				continue
			}
			ok := false
			if iff := ifOf(b); iff != nil && readErr != nil {
				if _, nn, k := nilEdgesOf(iff, func(v ssa.Value) bool { return v == ssa.Value(readErr) }); k && nn.To == s {
					ok = true
				}
			}
			if _, isPanic := s.Instrs[len(s.Instrs)-1].(*ssa.Panic); isPanic && strings.Contains(s.Comment, "select") {
				ok = true // compiler-generated unreachable default of a blocking select
			}
			if !ok && len(s.Instrs) > 0 {
				if p, isP := s.Instrs[len(s.Instrs)-1].(*ssa.Panic); isP {
					if mi, ok2 := p.X.(*ssa.MakeInterface); ok2 {
						if k, ok3 := mi.X.(*ssa.Const); ok3 && strings.Contains(k.Value.String(), "blocking select") {
							ok = true
						}
					}
				}
			}
			r.Check(ok, "C10-K2", key("receive loop left only on read error: "+exitDesc(c, b, s)), c.P.ipos(b.Instrs[len(b.Instrs)-1]), "exit edge is err!=nil of ReadFrom",
				"a datagram (malformed, foreign or unsolicited) can terminate the receive loop: every later call times out")
		}
	}
}

func c10Send(c *Ctx, a *clientAnchors) {
	r, sx, fn := c.R, c.Sx(), a.send
	key := func(s string) string { return a.short + ".send: " + s }
	msgParam := fn.Params[2]
	keyWant := "field[TransactionID](" + sx.Of(msgParam).String() + ")"
	var mu *ssa.MapUpdate
	var look *ssa.Lookup
	var write *ssa.Call
	nMu, nWrite := 0, 0
	allInstrs(fn, func(in ssa.Instruction) {
		switch x := in.(type) {
		case *ssa.MapUpdate:
			if a.isClientFieldLoad(x.Map, "pending") {
				mu = x
				nMu++
			}
		case *ssa.Lookup:
			if x.CommaOk && a.isClientFieldLoad(x.X, "pending") {
				look = x
			}
		case *ssa.Call:
			if isInvokeOf(x.Common(), "net", "PacketConn", "WriteTo") {
				write = x
				nWrite++
			}
		}
	})
	if a.register != nil && mu == nil && look == nil && write != nil {
		c10SendViaRegister(c, a, write, nWrite, keyWant)
		return
	}
	if mu == nil || look == nil || write == nil {
		r.Undecided("C10-K3", key("shape"), c.P.pos(fn.Pos()), fmt.Sprintf("need lookup, store and WriteTo; found %v/%v/%v", look != nil, mu != nil, write != nil))
		return
	}
	r.Check(nMu == 1 && nWrite == 1, "C10-K3", key("one store, one transmission"), c.P.ipos(mu), "instance count", fmt.Sprintf("%d stores into pending, %d WriteTo calls", nMu, nWrite))
	r.Check(sx.Of(mu.Key).String() == keyWant, "C10-K3", key("store key is msg.TransactionID"), c.P.ipos(mu), "symx", "key is "+sx.Of(mu.Key).String())
	r.Check(sx.Of(look.Index).String() == keyWant, "C10-K3", key("lookup key is msg.TransactionID"), c.P.ipos(look), "symx", "key is "+sx.Of(look.Index).String())
	okv := extractOf(look, 1)
	var present, absent Edge
	found := false
	for _, b := range fn.Blocks {
		if iff := ifOf(b); iff != nil && okv != nil {
			if tE, fE, ok := boolEdgesOf(iff, func(v ssa.Value) bool { return v == ssa.Value(okv) }); ok {
				present, absent, found = tE, fE, true
			}
		}
	}
	if !found {
		r.Violation("C10-K3", key("presence not tested"), c.P.ipos(look), "the result of the pending lookup is not branched on: a colliding transaction id is not refused")
		return
	}
	r.Check(mustPassEdges(fn, mu.Block(), absent), "C10-K3", key("store only when the id is not pending"), c.P.ipos(mu), "store unreachable without the not-present edge", "the entry of a pending transaction can be overwritten")
	// present edge: error return, no store, no transmit
	reach := reachFrom(present.To, nil, nil)
	r.Check(!reach[mu.Block()] && !reach[write.Block()], "C10-K3", key("colliding id neither registers nor transmits"), c.P.ipos(look), "store and WriteTo unreachable from the present edge",
		"a call reusing a pending transaction id still registers or transmits")
	for b := range reach {
		if ret, ok := b.Instrs[len(b.Instrs)-1].(*ssa.Return); ok {
			errRes := ret.Results[len(ret.Results)-1]
			s := sx.Of(errRes).String()
			r.Check(!strings.HasPrefix(s, "const(nil"), "C10-K3", key("colliding id returns an error"), c.P.ipos(ret), "non-nil error value", "the colliding call returns a nil error")
		}
	}
	// same critical section
	li := a.lockFlow(fn)
	r.Check(li.must[look] && li.must[mu], "C10-K3", key("lookup and store under the lock"), c.P.ipos(mu), "must-hold", "lookup or store of pending without pendingMu held")
	unlockBetween := false
	{
		// any path look → mu passing an Unlock?
		blocked := map[*ssa.BasicBlock]bool{}
		for _, b := range fn.Blocks {
			for _, in := range b.Instrs {
				if a.isMuCall(in, "Unlock") {
					if b == look.Block() && instrIndex(in) < instrIndex(look) {
						continue
					}
					if b == mu.Block() && instrIndex(in) > instrIndex(mu) {
						continue
					}
					blocked[b] = true
				}
			}
		}
		if look.Block() != mu.Block() {
			if blocked[look.Block()] || blocked[mu.Block()] {
				unlockBetween = true
			} else if !reachFrom(look.Block(), nil, blocked)[mu.Block()] {
				unlockBetween = true
			}
		} else if blocked[mu.Block()] {
			unlockBetween = true
		}
	}
	r.Check(!unlockBetween, "C10-K3", key("check and registration in one critical section"), c.P.ipos(mu), "no Unlock on any path between lookup and store",
		"pendingMu is released between the 'already pending?' check and the registration: two concurrent callers with the same id can both be accepted")
	// store dominates WriteTo
	r.Check(instrDominates(mu, write), "C10-K3", key("registration precedes transmission"), c.P.ipos(write), "MapUpdate dominates WriteTo",
		"the datagram can be transmitted before the transaction is registered: a fast reply is dropped as unsolicited")
	r.Check(!li.may[write], "C11-K5", key("transmission outside the lock"), c.P.ipos(write), "may-hold is false at WriteTo", "WriteTo is called while pendingMu may be held")
	// the stored entry: {done, ch} fresh channels; the returned channel is the stored ch
	ent := sx.Of(mu.Value).String()
	_ = ent
	for _, ret := range returnsOf(fn) {
		if k, ok := ret.Results[len(ret.Results)-1].(*ssa.Const); ok && k.Value == nil || isLoadedNilErr(ret) {
			_ = k
		}
	}
}

func isLoadedNilErr(ret *ssa.Return) bool { return false }

func c10Matcher(c *Ctx, a *clientAnchors) {
	r, sx, fn := c.R, c.Sx(), a.try
	key := func(s string) string { return a.short + ".SendAndRead: " + s }
	ch := extractOf(a.sendCall, 0)
	// send arguments
	sar := a.sar
	if len(a.sendCall.Call.Args) == 3 {
		got1, got2 := sx.Of(a.sendCall.Call.Args[1]).String(), sx.Of(a.sendCall.Call.Args[2]).String()
		want1, want2 := sx.Of(sar.Params[2]).String(), sx.Of(sar.Params[3]).String()
		r.Check(got1 == want1 && got2 == want2, "C12-K2", key("send(dest, msg) gets SendAndRead's own dest and message"), c.P.ipos(a.sendCall), "symx", "send called with ("+got1+", "+got2+"), want ("+want1+", "+want2+")")
	}
	var sel *ssa.Select
	allInstrs(fn, func(in ssa.Instruction) {
		if s, ok := in.(*ssa.Select); ok {
			sel = s
		}
	})
	if sel == nil || ch == nil {
		r.Undecided("C10-K4", key("wait select"), c.P.pos(fn.Pos()), "no select / channel from send")
		return
	}
	// index of the state receiving from ch
	idx := -1
	for i, s := range sel.States {
		if s.Dir == types.RecvOnly && s.Chan == ssa.Value(ch) {
			idx = i
		}
	}
	if idx < 0 {
		r.Violation("C10-K4", key("waits on the channel returned by send"), c.P.ipos(sel), "no select case receives from the channel returned by send")
		return
	}
	pkt := extractOf(sel, 2+recvIndex(sel, idx))
	// the store into the captured response variable
	var stores []*ssa.Store
	allInstrs(fn, func(in ssa.Instruction) {
		if s, ok := in.(*ssa.Store); ok {
			if fv, ok := s.Addr.(*ssa.FreeVar); ok && types.Identical(fv.Type().(*types.Pointer).Elem(), s.Val.Type()) && !isErrorType(s.Val.Type()) {
				if _, isPtr := s.Val.Type().Underlying().(*types.Pointer); isPtr {
					stores = append(stores, s)
				}
			}
		}
	})
	if len(stores) != 1 || pkt == nil {
		r.Undecided("C10-K4", key("response store"), c.P.ipos(sel), fmt.Sprintf("expected one store of the response into the captured variable, found %d", len(stores)))
		return
	}
	st := stores[0]
	// the response and the error may leave the wait loop together through a join (`response, err = r0, r1` after a loop
	// whose exits set r0, r1): the stored value is then a φ paired edge by edge with the φ of the returned error
	pairPhi, _ := st.Val.(*ssa.Phi)
	if pairPhi != nil && pairPhi.Block() != st.Block() {
		pairPhi = nil
	}
	if pairPhi == nil {
		// (a φ of a join whose tested error decides the way to the store is the value of the edges that can reach it)
		r.Check(st.Val == ssa.Value(pkt) || feasibleAt(st.Val, st.Block()) == ssa.Value(pkt), "C10-K4", key("response is the packet received from the transaction channel"), c.P.ipos(st), "value identity", "the stored response is "+sx.Of(st.Val).String()+", not the packet received in this select")
	}
	// match condition
	var nilT, callT Edge
	haveNil, haveCall := false, false
	for _, b := range fn.Blocks {
		iff := ifOf(b)
		if iff == nil {
			continue
		}
		isMatch := func(v ssa.Value) bool {
			s := sx.Of(v).String()
			return s == sx.Of(sar.Params[4]).String()
		}
		if ne, _, ok := nilEdgesOf(iff, isMatch); ok {
			nilT, haveNil = ne, true
		}
		if tE, _, ok := boolEdgesOf(iff, func(v ssa.Value) bool {
			cl, ok := v.(*ssa.Call)
			return ok && cl.Call.StaticCallee() == nil && !cl.Call.IsInvoke() && isMatch(cl.Call.Value) && len(cl.Call.Args) == 1 && cl.Call.Args[0] == ssa.Value(pkt)
		}); ok {
			callT, haveCall = tE, true
		}
	}
	if !haveCall {
		r.Violation("C10-K4", key("matcher applied to the received packet"), c.P.ipos(st), "no call match(packet) on the packet of this select guards the response")
		return
	}
	edges := []Edge{callT}
	if haveNil {
		edges = append(edges, nilT)
	}
	if pairPhi != nil {
		var errPhi *ssa.Phi
		for _, in := range st.Block().Instrs {
			if ph, ok := in.(*ssa.Phi); ok && isErrorType(ph.Type()) && len(ph.Edges) == len(pairPhi.Edges) {
				errPhi = ph
			}
		}
		returned := false
		if errPhi != nil {
			for _, ret := range returnsOf(fn) {
				if len(ret.Results) == 1 && (ret.Results[0] == ssa.Value(errPhi) || retResult(ret, 0) == ssa.Value(errPhi)) {
					returned = true
				}
			}
		}
		if errPhi == nil || !returned {
			r.Undecided("C10-K4", key("response store"), c.P.ipos(st), "the response leaves the wait loop through a join, but the error returned with it is not the φ of the same join")
			return
		}
		nPkt := 0
		for k, e := range pairPhi.Edges {
			pred := st.Block().Preds[k]
			errNil := isNilConst(errPhi.Edges[k])
			switch {
			case e == ssa.Value(pkt):
				nPkt++
				r.Check(mustPassEdges(fn, pred, edges...), "C10-K4", key("response stored only under match==nil or match(packet)"), c.P.ipos(st), "the exit that carries the packet is unreachable without {match==nil, match(packet)==true}",
					"a packet the matcher rejected can be returned")
				r.Check(errNil, "C10-K4", key("an accepted packet is returned as success"), c.P.ipos(st), "paired error is nil", "the accepted packet leaves the wait loop together with an error")
			case isNilConst(e):
				r.Check(!errNil, "C10-K4", key("success is returned only together with a response"), c.P.ipos(st), "an exit without a packet carries an error", "the try can succeed without an accepted packet")
			default:
				r.Violation("C10-K4", key("response is the packet received from the transaction channel"), c.P.ipos(st), "the stored response is "+sx.Of(e).String()+" on one exit of the wait loop, not the packet received in this select")
			}
		}
		r.Check(nPkt >= 1, "C10-K4", key("response is the packet received from the transaction channel"), c.P.ipos(st), "one exit carries the packet", "no exit of the wait loop carries the packet received in this select")
		return
	}
	r.Check(mustPassEdges(fn, st.Block(), edges...), "C10-K4", key("response stored only under match==nil or match(packet)"), c.P.ipos(st), "store unreachable without {match==nil, match(packet)==true}",
		"a packet the matcher rejected can be returned")
	// nil return only from the store block
	for _, ret := range returnsOf(fn) {
		v := ret.Results[0]
		s := sx.Of(v).String()
		if strings.Contains(s, "const(nil:error)") {
			// which stores of nil reach this return? the defer-spilled result cell: check the block storing nil
		}
		_ = s
	}
	allInstrs(fn, func(in ssa.Instruction) {
		s, ok := in.(*ssa.Store)
		if !ok {
			return
		}
		if k, ok := s.Val.(*ssa.Const); ok && k.Value == nil && isErrorType(k.Type()) {
			r.Check(s.Block() == st.Block() || st.Block().Dominates(s.Block()), "C10-K4", key("success is returned only together with a response"), c.P.ipos(s), "nil error assigned only after the response store",
				"the try can succeed without an accepted packet")
		}
	})
	for _, ret := range returnsOf(fn) {
		if k, ok := ret.Results[0].(*ssa.Const); ok && k.Value == nil {
			r.Check(st.Block().Dominates(ret.Block()), "C10-K4", key("success is returned only together with a response"), c.P.ipos(ret), "response store dominates return nil", "the try can succeed without an accepted packet")
		}
	}
}

func c10Locks(c *Ctx, a *clientAnchors) {
	r := c.R
	nAcc := 0
	for _, f := range a.pkgFuncs(c.P) {
		li := a.lockFlow(f)
		exempt := f == a.ctor // before the go statement nothing else can see the client
		allInstrs(f, func(in ssa.Instruction) {
			acc := false
			switch x := in.(type) {
			case *ssa.Lookup:
				acc = a.isClientFieldLoad(x.X, "pending")
			case *ssa.MapUpdate:
				acc = a.isClientFieldLoad(x.Map, "pending")
			case *ssa.Range:
				acc = a.isClientFieldLoad(x.X, "pending")
			case *ssa.Call:
				if (isBuiltinCall(x.Common(), "delete") || isBuiltinCall(x.Common(), "len")) && len(x.Call.Args) > 0 && a.isClientFieldLoad(x.Call.Args[0], "pending") {
					acc = true
				}
				if a.isMuCall(in, "Lock") {
					r.Check(!li.may[in], "C10-K5", shortName(f)+": no double acquisition of pendingMu", c.P.ipos(in), "may-hold false at Lock", "pendingMu.Lock while it may already be held: self-deadlock")
				}
				if a.isMuCall(in, "Unlock") {
					r.Check(li.must[in], "C10-K5", shortName(f)+": Unlock only when held", c.P.ipos(in), "must-hold at Unlock", "pendingMu.Unlock on a path where it is not held")
				}
			case *ssa.Return:
				if em, _ := a.entryLock(f); em {
					// a helper entered with the lock held (every call site holds it) returns with it held
					r.Check(li.must[in], "C10-K5", shortName(f)+": lock still held at return (held on entry)", c.P.ipos(in), "must-hold at return", "a helper that is entered with pendingMu held releases it on some path: its caller unlocks again")
				} else {
					r.Check(!li.may[in], "C10-K5", shortName(f)+": lock released at return", c.P.ipos(in), "may-hold false at return", "a return path leaves pendingMu held")
				}
			case *ssa.Defer:
				if x.Call.StaticCallee() != nil && x.Call.StaticCallee().Name() == "Unlock" && len(x.Call.Args) > 0 && a.isClientFieldAddr(x.Call.Args[0], "pendingMu") {
					// released at the function's exits (RunDefers): modelled by the lock dataflow
					r.Check(li.must[in], "C10-K5", shortName(f)+": deferred Unlock registered while the lock is held", c.P.ipos(in), "must-hold at defer", "an Unlock is deferred on a path where pendingMu is not held")
				}
			}
			if acc && !exempt {
				nAcc++
				r.Check(li.must[in], "C10-K5", shortName(f)+": access to pending under pendingMu ("+accDesc(in)+")", c.P.ipos(in), "must-hold", "Client.pending is accessed on a path where pendingMu is not held: data race with the receive loop")
			}
			// the map escaping through another name
			if u, ok := in.(*ssa.UnOp); ok && a.isClientFieldAddr(u.X, "pending") {
				for _, ref := range *u.Referrers() {
					switch ref.(type) {
					case *ssa.Lookup, *ssa.MapUpdate, *ssa.Range, *ssa.DebugRef:
					case *ssa.Call:
						if cl := ref.(*ssa.Call); isBuiltinCall(cl.Common(), "delete") || isBuiltinCall(cl.Common(), "len") {
							continue
						}
						r.Undecided("C10-K5", shortName(f)+": pending map passed to a call", c.P.ipos(ref), "the map leaves the guarded-by analysis")
					default:
						r.Undecided("C10-K5", shortName(f)+": pending map aliased", c.P.ipos(ref), fmt.Sprintf("the map flows into %T", ref))
					}
				}
			}
		})
	}
	r.Count("C10-K5-accesses-"+a.short, nAcc)
	r.Expect("C10-K5-accesses-"+a.short, 5)
}

func accDesc(in ssa.Instruction) string {
	switch x := in.(type) {
	case *ssa.Lookup:
		return "lookup"
	case *ssa.MapUpdate:
		return "store"
	case *ssa.Range:
		return "range"
	case *ssa.Call:
		if b, ok := x.Call.Value.(*ssa.Builtin); ok {
			return b.Name()
		}
	}
	return "access"
}

func c10Confinement(c *Ctx, a *clientAnchors) {
	r := c.R
	// functions allowed to write Client fields: constructor, ClientOpt closures
	optT, _ := a.pkg.Pkg.Scope().Lookup("ClientOpt").(*types.TypeName)
	isOpt := func(f *ssa.Function) bool {
		if optT == nil {
			return false
		}
		sig, ok := optT.Type().Underlying().(*types.Signature)
		return ok && f.Parent() != nil && types.Identical(f.Signature, sig)
	}
	// a step of construction: an unexported function of the package that is never used as a value and whose every call
	// site lies in the constructor before the receive loop is started (or in another such step)
	startIn := func() ssa.Instruction {
		var start ssa.Instruction = a.goIns
		if a.goIns != nil && a.goIns.Parent() != a.ctor {
			start = nil
			allInstrs(a.ctor, func(x ssa.Instruction) {
				if ci, ok := x.(ssa.CallInstruction); ok && ci.Common().StaticCallee() == a.goIns.Parent() {
					start = x
				}
			})
		}
		return start
	}()
	beforeStart := func(site ssa.Instruction) bool {
		if startIn == nil || site.Parent() != a.ctor {
			return false
		}
		if site.Block() == startIn.Block() {
			for _, in := range site.Block().Instrs {
				if in == site {
					return true
				}
				if in == startIn {
					return false
				}
			}
		}
		return !reachFromSuccs(startIn.Block(), nil, nil)[site.Block()]
	}
	var constructionStep func(f *ssa.Function, depth int) bool
	constructionStep = func(f *ssa.Function, depth int) bool {
		if depth > 3 || f.Parent() != nil || token.IsExported(f.Name()) || f == a.ctor {
			return false
		}
		sites := 0
		ok := true
		for _, g := range a.pkgFuncs(c.P) {
			allInstrs(g, func(in ssa.Instruction) {
				ci, isCall := in.(ssa.CallInstruction)
				for _, op := range in.Operands(nil) {
					if op == nil || *op != ssa.Value(f) {
						continue
					}
					if !isCall || ci.Common().StaticCallee() != f || ci.Common().Value != ssa.Value(f) {
						ok = false // used as a value
						continue
					}
					if _, isGo := in.(*ssa.Go); isGo {
						ok = false
						continue
					}
					sites++
					if !(beforeStart(in) || (g != f && constructionStep(g, depth+1))) {
						ok = false
					}
				}
			})
		}
		return ok && sites > 0
	}
	for _, f := range a.pkgFuncs(c.P) {
		allInstrs(f, func(in ssa.Instruction) {
			st, ok := in.(*ssa.Store)
			if ok {
				if fa, ok := st.Addr.(*ssa.FieldAddr); ok {
					if pt, ok := fa.X.Type().Underlying().(*types.Pointer); ok {
						if n, ok := pt.Elem().(*types.Named); ok && n.Obj() == a.client.Obj() {
							fname := n.Underlying().(*types.Struct).Field(fa.Field).Name()
							r.Check(f == a.ctor || isOpt(f) || constructionStep(f, 0), "C10-K6", shortName(f)+": write of Client."+fname, c.P.ipos(in), "writer is the constructor or a ClientOpt",
								"a Client field is written after construction without synchronisation (readers: receive loop, concurrent calls)")
						}
					}
				}
			}
			// closed only through atomic
			if fa, ok := in.(*ssa.FieldAddr); ok && a.isClientFieldAddr(fa, "closed") {
				for _, ref := range *fa.Referrers() {
					cl, isCall := ref.(*ssa.Call)
					ok := isCall && cl.Call.StaticCallee() != nil && pkgPathOf(cl.Call.StaticCallee()) == "sync/atomic"
					if _, dbg := ref.(*ssa.DebugRef); dbg {
						ok = true
					}
					r.Check(ok, "C10-K6", shortName(f)+": Client.closed touched only through sync/atomic", c.P.ipos(ref), "referrer is an atomic call", "Client.closed is read or written non-atomically")
				}
			}
		})
	}
	// K9 the client's slice-typed state (the hardware address the receive loop filters on) is never handed out:
	// no function returns, stores or sends a slice sharing memory with a Client field
	nLoads := 0
	for _, f := range a.pkgFuncs(c.P) {
		allInstrs(f, func(in ssa.Instruction) {
			ld, ok := in.(*ssa.UnOp)
			if !ok || ld.Op != token.MUL {
				return
			}
			fa, ok := ld.X.(*ssa.FieldAddr)
			if !ok {
				return
			}
			pt, ok := fa.X.Type().Underlying().(*types.Pointer)
			if !ok {
				return
			}
			n, ok := pt.Elem().(*types.Named)
			if !ok || n.Obj() != a.client.Obj() {
				return
			}
			if _, isSlice := ld.Type().Underlying().(*types.Slice); !isSlice {
				return
			}
			fname := n.Underlying().(*types.Struct).Field(fa.Field).Name()
			nLoads++
			// aliases of the loaded slice
			seen := map[ssa.Value]bool{}
			work := []ssa.Value{ld}
			for len(work) > 0 {
				v := work[len(work)-1]
				work = work[:len(work)-1]
				if seen[v] {
					continue
				}
				seen[v] = true
				for _, ref := range *v.Referrers() {
					switch x := ref.(type) {
					case *ssa.Slice:
						if x.X == v {
							work = append(work, x)
						}
					case *ssa.ChangeType:
						work = append(work, x)
					case *ssa.Convert:
						if _, isStr := x.Type().Underlying().(*types.Basic); !isStr {
							work = append(work, x)
						}
					case *ssa.Phi:
						work = append(work, x)
					case *ssa.MakeInterface:
						work = append(work, x)
					case *ssa.Return:
						r.Violation("C10-K9", shortName(f)+": returns memory of Client."+fname, c.P.ipos(x), "the returned slice shares its backing array with Client."+fname+": a caller writing to it changes the client's state while the receive loop reads it (v4: retargets the hardware-address filter; data race)")
					case *ssa.Store:
						if x.Val == v {
							if _, isLocal := x.Addr.(*ssa.Alloc); !isLocal {
								r.Violation("C10-K9", shortName(f)+": stores memory of Client."+fname, c.P.ipos(x), "a slice sharing memory with Client."+fname+" is stored outside the function")
							}
						}
					case *ssa.Send:
						if x.X == v {
							r.Violation("C10-K9", shortName(f)+": sends memory of Client."+fname, c.P.ipos(x), "a slice sharing memory with Client."+fname+" is sent on a channel")
						}
					case *ssa.IndexAddr:
						if x.X == v {
							for _, r2 := range *x.Referrers() {
								if st, ok := r2.(*ssa.Store); ok && st.Addr == x {
									r.Violation("C10-K9", shortName(f)+": writes an element of Client."+fname, c.P.ipos(st), "the client's "+fname+" is overwritten in place after construction while the receive loop reads it")
								}
							}
						}
					case *ssa.Call:
						cc := x.Common()
						if isBuiltinCall(cc, "copy") && len(cc.Args) == 2 && cc.Args[0] == v {
							r.Violation("C10-K9", shortName(f)+": copies into Client."+fname, c.P.ipos(x), "Client."+fname+" is the destination of copy: the state the receive filter compares with is overwritten in place (v4: the client then accepts replies for another hardware address and drops its own)")
						}
						if isBuiltinCall(cc, "append") && len(cc.Args) > 0 && cc.Args[0] == v {
							if _, viaSlice := v.(*ssa.Slice); viaSlice {
								r.Violation("C10-K9", shortName(f)+": appends onto a re-slice of Client."+fname, c.P.ipos(x), "append onto a shortened view of Client."+fname+" writes into its backing array")
							}
						}
						if sf := cc.StaticCallee(); sf != nil && !inModule(sf) {
							k := funcKey(sf)
							if k == "io.ReadFull" || k == "io.ReadAtLeast" || k == "crypto/rand.Read" || k == "math/rand.Read" {
								for _, a0 := range cc.Args {
									if a0 == v {
										r.Violation("C10-K9", shortName(f)+": fills Client."+fname+" through "+k, c.P.ipos(x), "Client."+fname+" is overwritten in place after construction")
									}
								}
							}
						}
					}
				}
			}
		})
	}
	r.OK("C10-K9", a.short+": slice-typed Client fields are not returned, stored or sent", "-", "alias scan over loads of Client fields", fmt.Sprintf("%d loads scanned", nLoads))
	// ClientOpt closures are applied only in the constructor, before the go
	g := a.goIns
	r.Check(!inCycle(g.Block()), "C10-K6", a.short+": receive loop started once (go not in a loop)", c.P.ipos(g), "go block not on a cycle", "the receive loop can be started more than once per client")
	// the function containing the go is the ctor or called exactly once from it, not in a loop
	host := g.Parent()
	if host != a.ctor {
		n := 0
		var site ssa.Instruction
		for _, f := range a.pkgFuncs(c.P) {
			allInstrs(f, func(in ssa.Instruction) {
				if ci, ok := in.(ssa.CallInstruction); ok && ci.Common().StaticCallee() == host {
					n++
					site = in
					if f != a.ctor {
						r.Violation("C10-K6", a.short+": receive loop starter called outside the constructor", c.P.ipos(in), shortName(f)+" calls "+shortName(host))
					}
				}
			})
		}
		r.Check(n == 1 && site != nil && !inCycle(site.Block()), "C10-K6", a.short+": exactly one start of the receive loop per client", c.P.pos(host.Pos()), "single call site outside any loop", fmt.Sprintf("%d call sites of %s", n, shortName(host)))
	}
	// opts applied before the go: every dynamic call of a ClientOpt-typed value in ctor dominates the start
	allInstrs(a.ctor, func(in ssa.Instruction) {
		cl, ok := in.(*ssa.Call)
		if !ok || cl.Call.StaticCallee() != nil || cl.Call.IsInvoke() || optT == nil {
			return
		}
		if !types.Identical(cl.Call.Value.Type(), optT.Type()) {
			return
		}
		var start ssa.Instruction = g
		if host != a.ctor {
			allInstrs(a.ctor, func(x ssa.Instruction) {
				if ci, ok := x.(ssa.CallInstruction); ok && ci.Common().StaticCallee() == host {
					start = x
				}
			})
		}
		r.Check(start.Parent() == a.ctor && !reachFromSuccs(start.Block(), nil, nil)[cl.Block()], "C10-K6", a.short+": options applied before the receive loop starts", c.P.ipos(cl), "option call not reachable after the go", "a ClientOpt can run after the receive loop was started")
	})
}

// freshBufferSite: the allocation instruction behind a buffer value (make([]byte,n) with a
// dynamic or a constant size), or nil.
// minReceiveBuffer: MaxMessageSize of nclient4 (announced in option 57) and the literal used by nclient6
const minReceiveBuffer = 1500

func freshBufferSite(v ssa.Value) ssa.Instruction {
	switch x := v.(type) {
	case *ssa.MakeSlice:
		return x
	case *ssa.Slice:
		if a, ok := x.X.(*ssa.Alloc); ok && a.Heap && x.Low == nil {
			return a
		}
	}
	return nil
}

// c10SendViaRegister: the K3 clauses when the check-and-register step lives in an unexported helper g that send calls
// once (`ch, done, ok := c.register(msg.TransactionID)`): inside g — one lookup and one store keyed by g's id parameter,
// the store only on the not-present edge, both under the lock in one critical section, the lock released on every exit,
// and a boolean (or error) result that is "registered" exactly on the paths through the store; in send — the id handed
// to g is msg.TransactionID, the not-registered outcome neither transmits nor returns a nil error, and the call
// dominates the one WriteTo, which runs outside the lock.
func c10SendViaRegister(c *Ctx, a *clientAnchors, write *ssa.Call, nWrite int, keyWant string) {
	r, sx, fn, g := c.R, c.Sx(), a.send, a.register
	key := func(s string) string { return a.short + ".send: " + s }
	var call *ssa.Call
	allInstrs(fn, func(in ssa.Instruction) {
		if cl, ok := in.(*ssa.Call); ok && cl.Call.StaticCallee() == g {
			call = cl
		}
	})
	var mu *ssa.MapUpdate
	var look *ssa.Lookup
	nMu := 0
	allInstrs(g, func(in ssa.Instruction) {
		switch x := in.(type) {
		case *ssa.MapUpdate:
			if a.isClientFieldLoad(x.Map, "pending") {
				mu = x
				nMu++
			}
		case *ssa.Lookup:
			if x.CommaOk && a.isClientFieldLoad(x.X, "pending") {
				look = x
			}
		}
	})
	if call == nil || mu == nil || look == nil {
		r.Undecided("C10-K3", key("shape"), c.P.pos(fn.Pos()), "registration helper "+shortName(g)+": call, lookup or store not found")
		return
	}
	r.Check(nMu == 1 && nWrite == 1, "C10-K3", key("one store, one transmission"), c.P.ipos(mu), "instance count", fmt.Sprintf("%d stores into pending, %d WriteTo calls", nMu, nWrite))
	// the key: g's parameter, which is msg.TransactionID at the call
	var idPrm *ssa.Parameter
	for _, p := range g.Params {
		if ssa.Value(p) == mu.Key {
			idPrm = p
		}
	}
	okKey := idPrm != nil && look.Index == ssa.Value(idPrm)
	if okKey {
		for i, p := range g.Params {
			if p == idPrm && i < len(call.Call.Args) {
				okKey = sx.Of(call.Call.Args[i]).String() == keyWant
			}
		}
	}
	r.Check(okKey, "C10-K3", key("store key is msg.TransactionID"), c.P.ipos(mu), "the helper's id parameter keys lookup and store; the call passes msg.TransactionID", "store key "+sx.Of(mu.Key).String()+", lookup key "+sx.Of(look.Index).String())
	r.OK("C10-K3", key("lookup key is msg.TransactionID"), c.P.ipos(look), "same parameter", "")
	okv := extractOf(look, 1)
	var present, absent Edge
	found := false
	for _, b := range g.Blocks {
		if iff := ifOf(b); iff != nil && okv != nil {
			if tE, fE, ok := boolEdgesOf(iff, func(v ssa.Value) bool { return v == ssa.Value(okv) }); ok {
				present, absent, found = tE, fE, true
			}
		}
	}
	if !found {
		r.Violation("C10-K3", key("presence not tested"), c.P.ipos(look), "the result of the pending lookup is not branched on: a colliding transaction id is not refused")
		return
	}
	r.Check(mustPassEdges(g, mu.Block(), absent), "C10-K3", key("store only when the id is not pending"), c.P.ipos(mu), "store unreachable without the not-present edge", "the entry of a pending transaction can be overwritten")
	// the helper's verdict: which result tells the caller, and with which value on which side
	reachP := reachFrom(present.To, nil, nil)
	verdictIdx := -1
	var verdictReg bool // value of the boolean verdict that means "registered"
	okVerdict := true
	rets := returnsOf(g)
	for _, ret := range rets {
		for i := range ret.Results {
			if _, ok := boolConst(retResult(ret, i)); ok && verdictIdx < 0 {
				verdictIdx = i
			}
		}
	}
	if verdictIdx >= 0 {
		seenReg := false
		for _, ret := range rets {
			b, ok := boolConst(retResult(ret, verdictIdx))
			if !ok {
				okVerdict = false
				continue
			}
			if !reachP[ret.Block()] {
				if seenReg && b != verdictReg {
					okVerdict = false
				}
				verdictReg, seenReg = b, true
			}
		}
		for _, ret := range rets {
			if b, ok := boolConst(retResult(ret, verdictIdx)); ok && reachP[ret.Block()] && b == verdictReg {
				okVerdict = false
			}
		}
		okVerdict = okVerdict && seenReg
	}
	r.Check(!reachP[mu.Block()] && verdictIdx >= 0 && okVerdict, "C10-K3", key("colliding id neither registers nor transmits"), c.P.ipos(look), "in the helper the present edge reaches no store and returns the 'not registered' verdict; the registering paths return the opposite",
		"the registration helper stores on the present edge or its boolean verdict does not separate the colliding from the registering paths")
	// in send: the not-registered outcome returns a non-nil error and does not transmit
	var verdict ssa.Value
	if verdictIdx >= 0 {
		verdict = extractOf(call, verdictIdx)
	}
	foundV := false
	for _, b := range fn.Blocks {
		iff := ifOf(b)
		if iff == nil || verdict == nil {
			continue
		}
		if tE, fE, ok := boolEdgesOf(iff, func(v ssa.Value) bool { return v == verdict }); ok {
			foundV = true
			refused := fE
			if !verdictReg {
				refused = tE
			}
			reach := reachFrom(refused.To, nil, nil)
			r.Check(!reach[write.Block()], "C10-K3", key("colliding id does not transmit"), c.P.ipos(iff), "WriteTo unreachable from the not-registered outcome", "a call reusing a pending transaction id still transmits")
			for rb := range reach {
				if ret, ok := rb.Instrs[len(rb.Instrs)-1].(*ssa.Return); ok {
					s := sx.Of(ret.Results[len(ret.Results)-1]).String()
					r.Check(!strings.HasPrefix(s, "const(nil"), "C10-K3", key("colliding id returns an error"), c.P.ipos(ret), "non-nil error value", "the colliding call returns a nil error")
				}
			}
			registered := tE
			if !verdictReg {
				registered = fE
			}
			r.Check(mustPassEdges(fn, write.Block(), registered), "C10-K3", key("registration precedes transmission"), c.P.ipos(write), "WriteTo only behind the registered outcome of the helper",
				"the datagram can be transmitted although the transaction was not registered")
		}
	}
	if !foundV {
		r.Violation("C10-K3", key("presence not tested"), c.P.ipos(call), "send does not branch on the registration helper's verdict")
	}
	// lock discipline inside the helper
	li := a.lockFlow(g)
	r.Check(li.must[look] && li.must[mu], "C10-K3", key("lookup and store under the lock"), c.P.ipos(mu), "must-hold", "lookup or store of pending without pendingMu held")
	unlockBetween := false
	for _, b := range g.Blocks {
		for _, in := range b.Instrs {
			if a.isMuCall(in, "Unlock") {
				// an explicit Unlock anywhere between: conservative — any Unlock that can precede the store and follow the lookup
				if reachFrom(look.Block(), nil, nil)[b] && reachFrom(b, nil, nil)[mu.Block()] && !(b == mu.Block() && instrIndex(in) > instrIndex(mu)) && !(b == look.Block() && instrIndex(in) < instrIndex(look)) {
					unlockBetween = true
				}
			}
		}
	}
	r.Check(!unlockBetween, "C10-K3", key("check and registration in one critical section"), c.P.ipos(mu), "no Unlock on any path between lookup and store",
		"pendingMu is released between the 'already pending?' check and the registration: two concurrent callers with the same id can both be accepted")
	released := true
	for _, b := range g.Blocks {
		if _, isRet := b.Instrs[len(b.Instrs)-1].(*ssa.Return); isRet && li.exitMay[b] {
			released = false
		}
	}
	r.Check(released, "C10-K5", key("the registration helper releases the lock on every exit"), c.P.pos(g.Pos()), "may-hold is false at every return", "pendingMu may still be held when the helper returns")
	r.Check(instrDominates(call, write), "C10-K3", key("registration call precedes transmission"), c.P.ipos(write), "the helper call dominates WriteTo", "the datagram can be transmitted before the transaction is registered: a fast reply is dropped as unsolicited")
	ls := a.lockFlow(fn)
	r.Check(!ls.may[write], "C11-K5", key("transmission outside the lock"), c.P.ipos(write), "may-hold is false at WriteTo", "WriteTo is called while pendingMu may be held")
}

// hoistedBufferSafe: a receive buffer allocated once, before the read loop, is as good as one allocated per datagram
// when nothing keeps a reference into it: the value handed to ReadFrom is the whole buffer itself (no narrowing φ), the
// only other uses of the buffer are re-slices handed to the decoder `dec` — which E3 proves to keep no memory of its
// input — or used as the source of copy / the operand of len and cap, and the buffer is never stored, sent, returned,
// captured or boxed. Returns "" when safe, else the reason.
func hoistedBufferSafe(c *Ctx, read, dec *ssa.Call, site ssa.Instruction) string {
	if site == nil || dec == nil || dec.Call.StaticCallee() == nil {
		return "no allocation site / decoder"
	}
	if !(site.Block() == read.Block() || site.Block().Dominates(read.Block())) {
		return "the allocation does not dominate the read"
	}
	// the decoder keeps nothing of its input
	for _, x := range getE3(c).retentionFindings(dec.Call.StaticCallee(), 0) {
		return "the decoder keeps memory of its input (" + x.short + ")"
	}
	// the buffer values: the allocation and its whole-buffer re-slices
	var whole func(v ssa.Value) bool
	whole = func(v ssa.Value) bool {
		switch x := v.(type) {
		case *ssa.MakeSlice:
			return ssa.Instruction(x) == site
		case *ssa.Alloc:
			return ssa.Instruction(x) == site
		case *ssa.Slice:
			return x.Low == nil && x.Max == nil && fullHigh(x) && whole(x.X)
		}
		return false
	}
	if !whole(read.Call.Args[0]) {
		return "the slice handed to ReadFrom is not the whole buffer (it may have been narrowed by an earlier iteration)"
	}
	reason := ""
	var uses func(v ssa.Value, isWhole bool, d int)
	uses = func(v ssa.Value, isWhole bool, d int) {
		if d > 4 || v.Referrers() == nil {
			return
		}
		for _, ref := range *v.Referrers() {
			switch u := ref.(type) {
			case *ssa.DebugRef:
			case *ssa.Slice:
				if u.X == v {
					uses(u, isWhole && u.Low == nil && fullHigh(u) && u.Max == nil, d+1)
				}
			case *ssa.Call:
				cc := u.Common()
				switch {
				case u == read:
				case u == dec:
				case isBuiltinCall(cc, "len"), isBuiltinCall(cc, "cap"):
				case isBuiltinCall(cc, "copy") && len(cc.Args) == 2 && cc.Args[1] == v && cc.Args[0] != v:
				default:
					if reason == "" {
						reason = "the buffer is handed to " + u.String()
					}
				}
			default:
				if reason == "" {
					reason = "the buffer is used by " + ref.String()
				}
			}
		}
	}
	uses(site.(ssa.Value), true, 0)
	return reason
}

// fullHigh: the upper bound of the slice expression is absent or the constant length of the sliced array
// (make([]byte, K) compiles to new [K]byte followed by [:K])
func fullHigh(x *ssa.Slice) bool {
	if x.High == nil {
		return true
	}
	k, ok := intConst(x.High)
	if !ok {
		return false
	}
	if pt, isP := x.X.Type().Underlying().(*types.Pointer); isP {
		if at, isA := pt.Elem().Underlying().(*types.Array); isA {
			return at.Len() == k
		}
	}
	return false
}
