// Copyright 2023 The Go Authors. All rights reserved.
// Use of this source code is governed by a BSD-style
// license that can be found in the LICENSE file.

package versions

import (
	"go/ast"
	"go/types"
)

// FileVersion returns a file's Go version.
// The reported version is an unknown Future version if a
// version cannot be determined.
func FileVersion(info *types.Info, file *ast.File) string {
	// In tools built with Go >= 1.22, the Go version of a file
	// follow a cascades of sources:
	// 1) types.Info.FileVersion, which follows the cascade:
	//   1.a) file version (ast.File.GoVersion),
	//   1.b) the package version (types.Config.GoVersion), or
	// 2) is some unknown Future version.
	//
	// File versions require a valid package version to be provided to types
	// in Config.GoVersion. Config.GoVersion is either from the package's module
	// or the toolchain (go run). This value should be provided by go/packages
	// or unitchecker.Config.GoVersion.
	if v := info.FileVersions[file]; IsValid(v) {
		return v
	}
	// Note: we could instead return runtime.Version() [if valid].
	// This would act as a max version on what a tool can support.
	return Future
}
