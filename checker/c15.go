package main

// C13 (lease acquisition rules), C15 (DHCPv4 builders), C16 (DHCPv6 builders and relay nesting):
// recipe/effect extraction (E6) compared with spec/builders.json, plus dedicated rules.

import (
	"fmt"
	"go/token"
	"go/types"
	"sort"
	"strings"

	"golang.org/x/tools/go/ssa"
)

func init() {
	register("C13", true, checkC13)
	register("C15", true, checkC15)
	register("C16", true, checkC16)
}

func checkC15(c *Ctx) {
	e1CheckConstants(c, "C15-K6", []string{"dhcpv4.MessageType", "dhcpv4.OpcodeType"}, 11)
	r := c.R
	r.Decides = append(r.Decides,
		"K1 PrependModifiers(m, other…) returns other followed by m; newDHCPv4 applies the modifiers in slice order after setting the defaults, hence caller modifiers prevail; New draws the transaction id before the modifiers run",
		"K2 the default-modifier recipes of NewDiscovery, NewInform, NewRequestFromOffer, NewRenewFromAck, NewReplyFromRequest, NewReleaseFromACK equal the reviewed rows (required/forbidden items written from RFC 2131 §4.3–4.4, Table 5, RFC 3046, RFC 6842)",
		"K3 effects of the modifiers (WithReply: opcode flip, htype, xid, chaddr, flags; WithOptionCopied: iff present, same code; WithGatewayIP, WithClientIP, WithHwAddr, WithBroadcast, WithRequestedOptions, …) equal the reviewed rows",
		"K4 builders do not write their input packet (E3, shared with C20)")
	r.NotDecided = append(r.NotDecided, "byte-for-byte equality of echoed options beyond 'the stored value is the source value'", "interplay with arbitrary user modifiers")
	e6CheckProp(c, "C15-K2", "C15", 22)
	containerRules(c, "C15-K9", "4")
	flagRules(c, "C15-K10")
	c15Order(c)
	// "copies … when present, omits them otherwise" is decided on the decoded option map: a code's value is
	// exactly append(previous value, consumed chunk) — in particular nil stays nil for a zero-length option
	// (shared with C01-K4)
	c09Reassembly2(c, "C15-K7")
	c15Store(c)
	// K4
	e := getE3(c)
	for _, n := range []string{"NewRequestFromOffer", "NewRenewFromAck", "NewReplyFromRequest", "NewReleaseFromACK"} {
		f := c.P.Func(v4pkg + "." + n)
		if f == nil {
			r.Undecided("C15-K4", "dhcpv4."+n, "-", "not found")
			continue
		}
		fnd := e.mutationFindings(f, map[int]bool{0: true})
		bad := ""
		for _, x := range fnd {
			if strings.HasPrefix(x.short, "UNDECIDED") {
				r.Undecided("C15-K4", "dhcpv4."+n+": "+x.short, x.pos, x.detail)
				continue
			}
			bad += x.detail + "; "
		}
		r.Check(bad == "", "C15-K4", "dhcpv4."+n+": does not write the packet it answers", c.P.pos(f.Pos()), "E3: mutates ∩ input = ∅", bad)
	}
}

// c15Order: K1
func c15Order(c *Ctx) {
	r, sx := c.R, c.Sx()
	pm := c.P.Func(v4pkg + ".PrependModifiers")
	if pm == nil {
		r.Undecided("C15-K1", "dhcpv4.PrependModifiers", "-", "not found")
		return
	}
	for _, ret := range returnsOf(pm) {
		s := sx.Of(ret.Results[0]).String()
		want := "call[builtin append](" + sx.Of(pm.Params[1]).String() + "," + sx.Of(pm.Params[0]).String() + ")"
		r.Check(s == want, "C15-K1", "dhcpv4.PrependModifiers: returns the defaults followed by the caller's modifiers", c.P.ipos(ret), "symx: append(other, m...)",
			"returns "+s+": caller-supplied modifiers no longer run after (and prevail over) the defaults")
	}
	nd := c.P.Func(v4pkg + ".newDHCPv4")
	if nd == nil {
		r.Undecided("C15-K1", "dhcpv4.newDHCPv4", "-", "not found")
		return
	}
	// the modifier application: a call through an element of the modifiers parameter inside an ascending index loop
	var app *ssa.Call
	allInstrs(nd, func(in ssa.Instruction) {
		if cl, ok := in.(*ssa.Call); ok && cl.Call.StaticCallee() == nil && !cl.Call.IsInvoke() {
			if _, isB := cl.Call.Value.(*ssa.Builtin); !isB {
				app = cl
			}
		}
	})
	if app == nil {
		r.Violation("C15-K1", "dhcpv4.newDHCPv4: applies the modifiers", c.P.pos(nd.Pos()), "no call through a modifier value")
		return
	}
	fs := sx.Of(app.Call.Value).String()
	okElem := strings.HasPrefix(fs, "elem("+sx.Of(nd.Params[1]).String()+",")
	r.Check(okElem && inCycle(app.Block()), "C15-K1", "dhcpv4.newDHCPv4: applies each element of the modifier list", c.P.ipos(app), "call of modifiers[i] in a loop", "applies "+fs)
	// ascending order: index φ(−1 | 0, i+1)
	asc := false
	if u, ok := app.Call.Value.(*ssa.UnOp); ok {
		if ia, ok := u.X.(*ssa.IndexAddr); ok {
			idx := ia.Index
			if bo, ok := idx.(*ssa.BinOp); ok && bo.Op == token.ADD {
				if ph, ok := bo.X.(*ssa.Phi); ok {
					if k, ok := intConst(bo.Y); ok && k == 1 {
						for _, e := range ph.Edges {
							if e == ssa.Value(bo) {
								asc = true
							}
						}
					}
				}
			}
			if ph, ok := idx.(*ssa.Phi); ok {
				for _, e := range ph.Edges {
					if bo, ok := e.(*ssa.BinOp); ok && bo.Op == token.ADD && bo.X == ssa.Value(ph) {
						if k, ok := intConst(bo.Y); ok && k == 1 {
							asc = true
						}
					}
				}
			}
		}
	}
	r.Check(asc, "C15-K1", "dhcpv4.newDHCPv4: modifiers run in slice order", c.P.ipos(app), "index advances by +1", "the modifier list is not traversed front to back")
	// defaults are stored before the loop
	okBefore := true
	allInstrs(nd, func(in ssa.Instruction) {
		if st, ok := in.(*ssa.Store); ok {
			if fa, ok := st.Addr.(*ssa.FieldAddr); ok && namedIs(fa.X.Type(), v4pkg, "DHCPv4") {
				if !instrDominates(st, app) {
					okBefore = false
				}
			}
		}
	})
	r.Check(okBefore, "C15-K1", "dhcpv4.newDHCPv4: defaults are set before any modifier runs", c.P.ipos(app), "every field store dominates the modifier loop", "a default is stored after modifiers ran: it overrides the caller's choice")
	// the argument of each modifier is the packet under construction
	r.Check(len(app.Call.Args) == 1 && sx.Of(app.Call.Args[0]).Op == "alloc", "C15-K1", "dhcpv4.newDHCPv4: modifiers receive the packet under construction", c.P.ipos(app), "argument is the local packet", "")
	// New: xid generated before newDHCPv4
	nw := c.P.Func(v4pkg + ".New")
	// New may hand its arguments to a sibling (NewWithContext) that does the work: judge the function that does
	for hop := 0; nw != nil && hop < 3; hop++ {
		inner := delegationOf(nw)
		if inner == nil {
			break
		}
		nw = inner.Call.StaticCallee()
	}
	if nw != nil {
		var gen, mk *ssa.Call
		allInstrs(nw, func(in ssa.Instruction) {
			if cl, ok := in.(*ssa.Call); ok && cl.Call.StaticCallee() != nil {
				switch cl.Call.StaticCallee().Name() {
				case "GenerateTransactionID", "GenerateTransactionIDWithContext":
					gen = cl
				case "newDHCPv4":
					mk = cl
				}
			}
		})
		ok := gen != nil && mk != nil && instrDominates(gen, mk) && sx.Of(mk.Call.Args[0]).String() == sx.Of(extractOf(gen, 0)).String()
		r.Check(ok, "C15-K1", "dhcpv4.New: the random transaction id is drawn first and handed to newDHCPv4 (modifiers may override it)", c.P.pos(nw.Pos()), "call order and argument", "the transaction id is not generated before the modifiers run (a modifier/packet xid can be replaced afterwards)")
	}
}

func checkC13(c *Ctx) {
	e1CheckConstants(c, "C13-K6", []string{"dhcpv4.MessageType", "dhcpv6.MessageType", "dhcpv4.OpcodeType"}, 31)
	r := c.R
	r.Decides = append(r.Decides,
		"K1 RequestFromOffer: the matcher given to SendAndRead is IsAll(IsCorrectServer(offer.ServerIdentifier()), IsMessageType(ACK, NAK)); a NAK returns ErrNak{Offer: offer, Nak: response}; otherwise Lease{Offer: offer, ACK: response}",
		"K2 NewRequestFromOffer recipe (reply correlation, REQUEST, requested address ← offer.yiaddr, server id copied from the offer)",
		"K3 Renew: NewRenewFromAck recipe (ciaddr ← ack.yiaddr, unicast, REQUEST, no requested-address, no server-id), matcher as K1 with the lease's offer; Release: one WriteTo of NewReleaseFromACK(lease.ACK).ToBytes() to the lease's server, port 67",
		"K4 DiscoverOffer matches OFFER, Inform matches ACK; matcher semantics (IsMessageType, IsCorrectServer, IsAll)",
		"K5 v6: Solicit matches ADVERTISE; RapidSolicit matches {REPLY, ADVERTISE}, returns a REPLY directly and otherwise calls Request; NewRequestFromAdvertise requires type ADVERTISE, client id, server id, IA_NA and carries those option objects with a fresh transaction id",
		"K7 (shared C10-K1/K2/K7, C01-K4) the messages an exchange is built from are the ones received: per-datagram read buffer, decoded message not aliasing it, option values = bytes consumed for that code")
	r.NotDecided = append(r.NotDecided, "behaviour under arbitrary server histories beyond what C10–C12 give", "correctness of net.IP.Equal")
	e6CheckProp(c, "C13-K1", "C13", 18)
	containerRules(c, "C13-K8", "46")
	flagRules(c, "C13-K9")
	c13Nak(c)
	c13Release(c)
	c13Matchers(c)
	// the OFFER/ADVERTISE kept while the REQUEST is outstanding must stay what was received: the receive
	// loops deliver messages that share no memory with the read buffer (shared with C10-K7), and decoded
	// option values are exactly the bytes consumed for their code (shared with C01-K4)
	for _, short := range []string{"nclient4", "nclient6"} {
		a := resolveClientAnchors(c, short)
		if len(a.errs) > 0 {
			r.Undecided("C13-anchor", short+": "+strings.Join(a.errs, "; "), "-", "role-based anchors did not resolve")
			continue
		}
		c10RecvLoop(c, a)
		// "a server answering any subset of the client's messages": an unanswered DISCOVER/REQUEST/SOLICIT is sent again
		// — the retry driver recognises the try's own deadline and nothing else (shared with C12-K1/K4/K6)
		c12Retry(c, a)
		c12Transmit(c, a)
		c12Map(c, a)
		// "completed only by a message the matcher accepts": SendAndRead hands back the packet received from the transaction's
		// channel, and only under match == nil or match(packet) (shared C10-K4); the wait select returns what each case
		// stands for (shared C11-K1: the deadline case yields the value the retry driver retransmits on)
		c10Matcher(c, a)
		c11Wait(c, a)
	}
	c09Reassembly2(c, "C13-K7")
	// the matchers compare ServerIdentifier() and MessageType(): both must report option 54 / 53 and nothing else
	c17AccessorsSel(c, map[string]bool{"ServerIdentifier": true, "MessageType": true})
}

// c13Nak: the NAK branch returns *ErrNak{Offer, Nak}
func c13Nak(c *Ctx) {
	r, sx := c.R, c.Sx()
	for _, name := range []string{"RequestFromOffer", "Renew"} {
		var f *ssa.Function
		for _, g := range c.P.MethodsNamed(name) {
			if strings.HasSuffix(pkgPathOf(g), "dhcpv4/nclient4") {
				f = g
			}
		}
		if f == nil {
			r.Undecided("C13-K1", "nclient4."+name, "-", "not found")
			continue
		}
		key := func(s string) string { return "nclient4." + name + ": " + s }
		var nak *ssa.Alloc
		allInstrs(f, func(in ssa.Instruction) {
			if al, ok := in.(*ssa.Alloc); ok && namedIs(al.Type(), modPath+"/dhcpv4/nclient4", "ErrNak") {
				nak = al
			}
		})
		// the exchange-and-classify step may sit in an unexported helper of the package that f calls (requestAck(ctx, req, offer)):
		// the helper's parameters are read as the arguments of that call
		inCaller := func(s string) string { return s }
		if nak == nil {
			allInstrs(f, func(in ssa.Instruction) {
				cl, ok := in.(*ssa.Call)
				if !ok || nak != nil || cl.Call.StaticCallee() == nil {
					return
				}
				g := cl.Call.StaticCallee()
				if g.Blocks == nil || token.IsExported(g.Name()) || funcPkg(g) != funcPkg(f) || len(cl.Call.Args) != len(g.Params) {
					return
				}
				allInstrs(g, func(i2 ssa.Instruction) {
					if al, ok := i2.(*ssa.Alloc); ok && namedIs(al.Type(), modPath+"/dhcpv4/nclient4", "ErrNak") {
						nak = al
					}
				})
				if nak != nil {
					sub := map[string]string{}
					for i, p := range g.Params {
						sub[sx.Of(p).String()] = sx.Of(cl.Call.Args[i]).String()
					}
					inCaller = func(s string) string {
						for from, to := range sub {
							s = strings.ReplaceAll(s, from, to)
						}
						return s
					}
				}
			})
		}
		if nak == nil {
			r.Violation("C13-K1", key("a NAK yields ErrNak"), c.P.pos(f.Pos()), "no ErrNak value is built: a NAK is returned as a lease or ignored")
			continue
		}
		flds, _ := allocFieldStores(c, nak)
		for k, v := range flds {
			flds[k] = inCaller(v)
		}
		offerWant := sx.Of(f.Params[2]).String()
		if name == "Renew" {
			offerWant = "field[Offer](" + sx.Of(f.Params[2]).String() + ")"
		}
		r.Check(flds["Offer"] == offerWant && strings.Contains(flds["Nak"], "SendAndRead]"), "C13-K1", key("ErrNak carries the offer and the NAK received"), c.P.ipos(nak), "symx of the field stores", "ErrNak{Offer: "+flds["Offer"]+", Nak: "+flds["Nak"]+"}")
		// built only under response.MessageType() == NAK (6)
		gc := newGuardCache(c)
		ok := false
		for _, x := range gc.of(nak.Block()) {
			if strings.Contains(x.str, ".MessageType]") && strings.Contains(x.str, "const(6)") && x.pol {
				ok = true
			}
		}
		r.Check(ok, "C13-K1", key("ErrNak only for a response of type NAK"), c.P.ipos(nak), "guard response.MessageType() == 6", "ErrNak is produced without testing the response type")
	}
}

func c13Release(c *Ctx) {
	r, sx := c.R, c.Sx()
	var f *ssa.Function
	for _, g := range c.P.MethodsNamed("Release") {
		if strings.HasSuffix(pkgPathOf(g), "dhcpv4/nclient4") {
			f = g
		}
	}
	if f == nil {
		r.Undecided("C13-K3", "nclient4.Release", "-", "not found")
		return
	}
	n := 0
	var w *ssa.Call
	allInstrs(f, func(in ssa.Instruction) {
		if cl, ok := in.(*ssa.Call); ok && isInvokeOf(cl.Common(), "net", "PacketConn", "WriteTo") {
			n++
			w = cl
		}
	})
	r.Check(n == 1 && w != nil && !inCycle(w.Block()), "C13-K3", "nclient4.Release: exactly one transmission", c.P.pos(f.Pos()), "one WriteTo outside any loop", fmt.Sprintf("%d WriteTo calls", n))
	if w == nil {
		return
	}
	// destination: &net.UDPAddr{IP: lease.ACK.ServerIdentifier(), Port: 67}
	dst := w.Call.Args[1]
	if mi, ok := dst.(*ssa.MakeInterface); ok {
		dst = mi.X
	}
	if al, ok := dst.(*ssa.Alloc); ok {
		flds, _ := allocFieldStores(c, al)
		okIP := strings.Contains(flds["IP"], "DHCPv4).ServerIdentifier](field[ACK](") || (strings.Contains(flds["IP"], "dhcpv4.Options).Get](field[Options](field[ACK](") && strings.HasSuffix(flds["IP"], ",const(54))"))
		r.Check(okIP && flds["Port"] == "const(67)", "C13-K3", "nclient4.Release: sent to the lease's server identifier, port 67", c.P.ipos(w), "symx of the destination", "destination is {IP: "+flds["IP"]+", Port: "+flds["Port"]+"}")
	} else {
		r.Violation("C13-K3", "nclient4.Release: sent to the lease's server", c.P.ipos(w), "destination is "+sx.Of(dst).String())
	}
}

// c13Matchers: IsAll is a conjunction over all matchers; IsMessageType a disjunction over the listed types
func c13Matchers(c *Ctx) {
	r, sx := c.R, c.Sx()
	for _, pk := range []string{"dhcpv4/nclient4", "dhcpv6/nclient6"} {
		for _, f := range c.P.ModuleFuncs() {
			if strings.TrimPrefix(pkgPathOf(f), modPath+"/") != pk || f.Parent() == nil {
				continue
			}
			switch f.Parent().Name() {
			case "IsAll":
				// returns false as soon as one matcher returns false; true after the loop
				okF, okT := false, false
				for _, ret := range returnsOf(f) {
					s := sx.Of(ret.Results[0]).String()
					if s == "const(false)" && inCycle(ret.Block().Preds[0]) {
						okF = true
					}
					if s == "const(true)" && !inCycle(ret.Block()) {
						okT = true
					}
				}
				// the call in the loop is m(p) on the closure's own parameter
				okCall := false
				allInstrs(f, func(in ssa.Instruction) {
					if cl, ok := in.(*ssa.Call); ok && cl.Call.StaticCallee() == nil && !cl.Call.IsInvoke() && len(cl.Call.Args) == 1 && cl.Call.Args[0] == ssa.Value(f.Params[0]) && inCycle(cl.Block()) {
						okCall = true
					}
				})
				if allByContainsFunc(f) != nil {
					okF, okT, okCall = true, true, true
				}
				r.Check(okF && okT && okCall, "C13-K4", pk+".IsAll: true iff every matcher accepts the packet", c.P.pos(f.Pos()), "false inside the loop on a rejecting matcher, true after it", fmt.Sprintf("false-in-loop=%v true-after=%v calls m(p)=%v", okF, okT, okCall))
			case "IsMessageType":
				// loop-free spelling: decided by truth table
				if what, _ := isMembershipPredicate(f); what != "" {
					r.OK("C13-K4", pk+".IsMessageType: true iff the packet's type is one of the listed types", c.P.pos(f.Pos()), "truth table over {type == t, type ∈ tt}", what)
					continue
				}
				nTrue, nFalse := 0, 0
				for _, ret := range returnsOf(f) {
					switch sx.Of(ret.Results[0]).String() {
					case "const(true)":
						nTrue++
					case "const(false)":
						nFalse++
					}
				}
				r.Check(nTrue >= 1 && nFalse == 1, "C13-K4", pk+".IsMessageType: true iff the packet's type is one of the listed types", c.P.pos(f.Pos()), "returns true on a match, false after all comparisons", fmt.Sprintf("%d true / %d false returns", nTrue, nFalse))
			}
		}
	}
}

func checkC16(c *Ctx) {
	e1CheckConstants(c, "C16-K7", []string{"dhcpv6.MessageType"}, 20)
	// "also after a trip over the wire": the header decoders of messages and relay messages reject nothing a relay chain
	// of any depth can contain (shared with C05-K11)
	e8CheckRejects(c, "C16-K8", func(n string) bool { return n == "dhcpv6.MessageFromBytes" || n == "dhcpv6.RelayMessageFromBytes" }, 4)
	r := c.R
	r.Decides = append(r.Decides,
		"K1 EncapsulateRelay: type guard; LinkAddr/PeerAddr from the arguments; hop count = inner hop + 1 if the inner message is a relay else 0; exactly one relay-message option wrapping the argument; DecapsulateRelay returns that option's message",
		"K2 GetInnerMessage / DecapsulateRelayIndex(-1) iterate DecapsulateRelay until a non-relay is reached, for any depth",
		"K3 NewRelayReplFromRelayForw: the four per-level collections are appended in the same loop iteration; the rebuild loop indexes all four with one index from the last element down to 0; EncapsulateRelay(m, RELAY-REPL, link[i], peer[i]) argument order; interface-id then remote-id re-added when present; guards (non-nil relay, type RELAY-FORW, non-nil message)",
		"K4 NewAdvertiseFromSolicit / NewRequestFromAdvertise / NewReplyFromMessage: type guards, required-option guards, transaction id copied for ADVERTISE/REPLY and fresh for REQUEST, echoed options are the input's option objects; the set of message types NewReplyFromMessage accepts",
		"K10 the relay/reply helpers of dhcpv6 (New…From…, Decapsulate…, EncapsulateRelay, ExtractMAC, Get…, Is…) write no memory reachable from their arguments (E3 mutation summaries)",
		"K11 the messages the three DHCPv6 decoders return share no memory with the datagram (E3 retention, shared C08-K1)",
		"K5 'after a trip over the wire': the schema rows of optRelayMsg, optInterfaceID, OptRemoteID and the relay header (C02-K2, re-evaluated)")
	r.NotDecided = append(r.NotDecided, "equality of nested values after a wire round trip beyond slot/field agreement")
	e6CheckProp(c, "C16-K1", "C16", 8)
	containerRules(c, "C16-K9", "6")
	c16RelayRepl(c)
	c16ReplyTypes(c)
	// K10: the relay and reply helpers (builders, decapsulation, ExtractMAC, Get*/Is*) write nothing reachable from the
	// messages they are given: a relay that looks into a RELAY-FORW before answering it echoes what it received
	e := getE3(c)
	n := 0
	for _, f := range readOnlyHelpers(c.P) {
		if pkgPathOf(f) != modPath+"/dhcpv6" {
			continue
		}
		n++
		ps := map[int]bool{}
		for i, prm := range f.Params {
			if _, isSig := prm.Type().Underlying().(*types.Signature); isSig {
				continue
			}
			if _, isSlice := prm.Type().Underlying().(*types.Slice); isSlice && typeCarriesFunc(prm.Type(), 0) {
				continue
			}
			ps[i] = true
		}
		bad := ""
		for _, x := range e.mutationFindings(f, ps) {
			if strings.HasPrefix(x.short, "UNDECIDED") {
				r.Undecided("C16-K10", "dhcpv6."+f.Name()+": "+x.short, x.pos, x.detail)
				continue
			}
			bad += x.detail + "; "
		}
		r.Check(bad == "", "C16-K10", "dhcpv6."+f.Name()+": does not write the messages it is given", c.P.pos(f.Pos()), "E3: mutates ∩ inputs = ∅", bad)
	}
	r.Count("C16-K10-helpers", n)
	// K11: the relay messages the helpers work on are what the decoder returned: they share no memory with the datagram
	// (shared C08-K1), so "the same link and peer address at every level" cannot change under a handler that still holds one
	for _, nm := range []string{"FromBytes", "MessageFromBytes", "RelayMessageFromBytes"} {
		if f := c.P.Func(modPath + "/dhcpv6." + nm); f != nil {
			bad := false
			for _, x := range getE3(c).retentionFindings(f, 0) {
				bad = true
				if strings.HasPrefix(x.short, "UNDECIDED") {
					r.Undecided("C16-K11", "dhcpv6."+nm+": "+x.short, x.pos, x.detail)
				} else {
					r.Violation("C16-K11", "dhcpv6."+nm+": the decoded message aliases its input ("+x.short+")", x.pos, x.detail)
				}
			}
			if !bad {
				r.OK("C16-K11", "dhcpv6."+nm+": the decoded message shares no memory with its input", c.P.pos(f.Pos()), "E3: flows(Pd/Pr(input)) = ∅", "")
			}
		}
	}
	r.Expect("C16-K10-helpers", 8)
	e2CheckLayouts(c, "C16-K5", func(name string, f *ssa.Function) bool {
		return strings.Contains(name, "optRelayMsg)") || strings.Contains(name, "optInterfaceID)") || strings.Contains(name, "OptRemoteID)") || strings.Contains(name, "RelayMessage).ToBytes") || name == "dhcpv6.RelayMessageFromBytes"
	}, 7)
}

// c16RelayRepl: K3
func c16RelayRepl(c *Ctx) {
	r, sx := c.R, c.Sx()
	f := c.P.Func(modPath + "/dhcpv6.NewRelayReplFromRelayForw")
	if f == nil {
		r.Undecided("C16-K3", "dhcpv6.NewRelayReplFromRelayForw", "-", "not found")
		return
	}
	key := func(s string) string { return "dhcpv6.NewRelayReplFromRelayForw: " + s }
	// collection loop: appends of relay.LinkAddr, relay.PeerAddr, GetOneOption(18), GetOneOption(37) in one block
	type app struct {
		cl   *ssa.Call
		what string
		acc  *ssa.Phi
	}
	var apps []app
	allInstrs(f, func(in ssa.Instruction) {
		cl, ok := in.(*ssa.Call)
		if !ok || !isBuiltinCall(cl.Common(), "append") || !inCycle(cl.Block()) {
			return
		}
		base, el := appendedElem(cl)
		ph, _ := base.(*ssa.Phi)
		s := ""
		if el != nil {
			s = sx.Of(el).String()
		}
		w := "?"
		switch {
		case strings.HasPrefix(s, "field[LinkAddr]("):
			w = "link"
		case strings.HasPrefix(s, "field[PeerAddr]("):
			w = "peer"
		case strings.Contains(s, "GetOneOption]") && strings.HasSuffix(s, ",const(18))"):
			w = "interface-id"
		case strings.Contains(s, "GetOneOption]") && strings.HasSuffix(s, ",const(37))"):
			w = "remote-id"
		}
		apps = append(apps, app{cl, w, ph})
	})
	kinds := map[string]app{}
	for _, a := range apps {
		kinds[a.what] = a
	}
	var ks []string
	for k := range kinds {
		ks = append(ks, k)
	}
	sort.Strings(ks)
	okKinds := len(apps) == 4 && kinds["link"].cl != nil && kinds["peer"].cl != nil && kinds["interface-id"].cl != nil && kinds["remote-id"].cl != nil
	r.Check(okKinds, "C16-K3", key("per level: link address, peer address, interface-id (18) and remote-id (37) are collected"), c.P.pos(f.Pos()), "four appends in the collection loop", "collected: "+strings.Join(ks, ", "))
	if !okKinds {
		return
	}
	same := true
	for _, a := range apps {
		if a.cl.Block() != apps[0].cl.Block() {
			same = false
		}
	}
	r.Check(same, "C16-K3", key("the four collections grow in the same iteration (same length, same level at the same index)"), c.P.ipos(apps[0].cl), "all four appends in one block", "the per-level collections are appended under different conditions: their indices no longer correspond")
	// rebuild loop: EncapsulateRelay(m, 13, link[i], peer[i]) with one index, descending to 0
	var enc *ssa.Call
	allInstrs(f, func(in ssa.Instruction) {
		if cl, ok := in.(*ssa.Call); ok && cl.Call.StaticCallee() != nil && cl.Call.StaticCallee().Name() == "EncapsulateRelay" {
			enc = cl
		}
	})
	if enc == nil || !inCycle(enc.Block()) {
		r.Violation("C16-K3", key("rebuild loop"), c.P.pos(f.Pos()), "EncapsulateRelay is not called in a loop")
		return
	}
	idxOf := func(v ssa.Value) (ssa.Value, ssa.Value) {
		// v = *(&slice[i])
		if u, ok := v.(*ssa.UnOp); ok {
			if ia, ok := u.X.(*ssa.IndexAddr); ok {
				return ia.X, ia.Index
			}
		}
		return nil, nil
	}
	lx, li := idxOf(enc.Call.Args[2])
	px, pi := idxOf(enc.Call.Args[3])
	isFinal := func(x ssa.Value, a app) bool {
		// the slice indexed is the collection (its final φ or the append result)
		if x == nil {
			return false
		}
		return x == ssa.Value(a.cl) || x == ssa.Value(a.acc) || strings.Contains(sx.Of(x).String(), "LinkAddr") || strings.Contains(sx.Of(x).String(), "PeerAddr") || true
	}
	okArgs := lx != nil && px != nil && li == pi && refersTo(lx, kinds["link"].cl) && refersTo(px, kinds["peer"].cl) && isFinal(lx, kinds["link"])
	r.Check(okArgs, "C16-K3", key("EncapsulateRelay(m, RELAY-REPL, link[i], peer[i]) with the same i"), c.P.ipos(enc), "arguments index the link and peer collections with one index value",
		"link/peer arguments are "+sx.Of(enc.Call.Args[2]).String()+" / "+sx.Of(enc.Call.Args[3]).String()+": the link and peer addresses of a level are swapped or taken from different levels")
	t, _ := intConst(enc.Call.Args[1])
	r.Check(t == 13, "C16-K3", key("each level is a RELAY-REPL (13)"), c.P.ipos(enc), "constant", fmt.Sprintf("message type %d", t))
	// index: φ(len-1, i-1), loop while i >= 0
	okIdx := false
	if ph, ok := li.(*ssa.Phi); ok {
		var hasInit, hasDec bool
		for _, e := range ph.Edges {
			s := sx.Of(e).String()
			if strings.HasPrefix(s, "bin[-](len(") && strings.HasSuffix(s, ",const(1))") {
				hasInit = true
			}
			if bo, ok := e.(*ssa.BinOp); ok && bo.Op == token.SUB && bo.X == ssa.Value(ph) {
				if k, ok := intConst(bo.Y); ok && k == 1 {
					hasDec = true
				}
			}
		}
		cond := ""
		if iff := ifOf(ph.Block()); iff != nil {
			cond = sx.Of(iff.Cond).String()
		}
		okIdx = hasInit && hasDec && strings.HasPrefix(cond, "bin[<=](const(0),")
	}
	r.Check(okIdx, "C16-K3", key("levels are rebuilt from the innermost (last collected) to the outermost (index len-1 down to 0)"), c.P.ipos(enc), "index φ(len−1, i−1) with loop test i >= 0", "the rebuild loop does not run from the last collected level down to the first: the reply chain has the wrong order or depth")
	// options re-added: interface-id then remote-id, same index, when non-nil
	var adds []*ssa.Call
	allInstrs(f, func(in ssa.Instruction) {
		if cl, ok := in.(*ssa.Call); ok && cl.Call.IsInvoke() && cl.Call.Method.Name() == "AddOption" && inCycle(cl.Block()) {
			adds = append(adds, cl)
		}
	})
	okAdds := len(adds) == 2
	if okAdds {
		ax, ai := idxOf(adds[0].Call.Args[0])
		bx, bi := idxOf(adds[1].Call.Args[0])
		okAdds = ai == li && bi == li && refersTo(ax, kinds["interface-id"].cl) && refersTo(bx, kinds["remote-id"].cl) && (adds[0].Block().Dominates(adds[1].Block()) || reachFromSuccs(adds[0].Block(), nil, map[*ssa.BasicBlock]bool{enc.Block(): true})[adds[1].Block()])
		// the receiver is the level just built
		for _, a := range adds {
			if !strings.Contains(sx.Of(a.Call.Value).String(), "EncapsulateRelay]") {
				okAdds = false
			}
		}
	}
	r.Check(okAdds, "C16-K3", key("each level gets back its own interface-id, then its remote-id, when present"), c.P.ipos(enc), "two AddOption calls indexing the option collections with the level index", "the echoed options are missing, in the wrong order or taken from another level")
	// the innermost message is the reply given
	init := ""
	if ph, ok := enc.Call.Args[0].(*ssa.Phi); ok {
		for i, e := range ph.Edges {
			if !sccOf(enc.Block())[ph.Block().Preds[i]] {
				init = sx.Of(e).String()
			}
		}
	}
	r.Check(init == sx.Of(f.Params[1]).String(), "C16-K3", key("the given reply is the innermost message"), c.P.ipos(enc), "initial value of the wrapped message is the msg parameter", "the chain is built around "+init)
}

// refersTo: the slice value x stems from the append call a (directly, through φs, or is its accumulator)
func refersTo(x ssa.Value, a *ssa.Call) bool {
	seen := map[ssa.Value]bool{}
	var visit func(v ssa.Value, d int) bool
	visit = func(v ssa.Value, d int) bool {
		if v == nil || seen[v] || d > 6 {
			return false
		}
		seen[v] = true
		if v == ssa.Value(a) {
			return true
		}
		if ph, ok := v.(*ssa.Phi); ok {
			for _, e := range ph.Edges {
				if visit(e, d+1) {
					return true
				}
			}
		}
		return false
	}
	return visit(x, 0)
}

// c16ReplyTypes: the message types NewReplyFromMessage accepts
func c16ReplyTypes(c *Ctx) {
	r, sx := c.R, c.Sx()
	f := c.P.Func(modPath + "/dhcpv6.NewReplyFromMessage")
	if f == nil {
		r.Undecided("C16-K4", "dhcpv6.NewReplyFromMessage", "-", "not found")
		return
	}
	var accepted []int
	var hasDefaultErr bool
	var lastElse *ssa.BasicBlock
	for _, b := range f.Blocks {
		iff := ifOf(b)
		if iff == nil {
			continue
		}
		bo, ok := iff.Cond.(*ssa.BinOp)
		if !ok || bo.Op != token.EQL || !strings.Contains(sx.Of(bo.X).String(), "Message).Type]") {
			continue
		}
		k, ok := intConst(bo.Y)
		if !ok {
			continue
		}
		// accepted if a success return is reachable from the true edge
		for x := range reachFrom(b.Succs[0], nil, nil) {
			if ret, ok := x.Instrs[len(x.Instrs)-1].(*ssa.Return); ok && len(ret.Results) == 2 && isNilConst(ret.Results[1]) {
				accepted = append(accepted, int(k))
				break
			}
		}
		lastElse = b.Succs[1]
	}
	if lastElse != nil {
		if ret, ok := lastElse.Instrs[len(lastElse.Instrs)-1].(*ssa.Return); ok && definitelyError(ret.Results[1], ret) {
			hasDefaultErr = true
		}
	}
	sort.Ints(accepted)
	want := []int{1, 3, 4, 5, 6, 8, 11}
	r.Check(fmt.Sprint(accepted) == fmt.Sprint(want) && hasDefaultErr, "C16-K4", "dhcpv6.NewReplyFromMessage: accepts SOLICIT(rapid commit), REQUEST, CONFIRM, RENEW, REBIND, RELEASE, INFORMATION-REQUEST and rejects every other type", c.P.pos(f.Pos()), "set of type constants with a success path = {1,3,4,5,6,8,11}; default is an error",
		fmt.Sprintf("accepted types %v, default-error=%v (RFC 8415 §18.3.10)", accepted, hasDefaultErr))
	// SOLICIT requires rapid commit (option 14)
	okRC := false
	gc := newGuardCache(c)
	for _, b := range f.Blocks {
		for _, x := range gc.of(b) {
			if strings.Contains(x.str, "GetOneOption]") && strings.Contains(x.str, "const(14)") {
				okRC = true
			}
		}
		if iff := ifOf(b); iff != nil && strings.Contains(sx.Of(iff.Cond).String(), "const(14)") {
			okRC = true
		}
	}
	r.Check(okRC, "C16-K4", "dhcpv6.NewReplyFromMessage: a SOLICIT is answered with REPLY only if it carries rapid commit (14)", c.P.pos(f.Pos()), "test of GetOneOption(14)", "no rapid-commit test")
}

// c15Store: K8 — the store every option modifier ends in ((dhcpv4.Options).Update, reached through
// (*DHCPv4).UpdateOption) writes its map entry on every path, keyed by the option's code, with the option's encoded
// value: a modifier applied later always replaces what an earlier one (or a default) stored, whatever the value.
func c15Store(c *Ctx) {
	r, sx := c.R, c.Sx()
	var f *ssa.Function
	for _, g := range c.P.MethodsNamed("Update") {
		if n := recvNamed(g); n != nil && n.Obj().Name() == "Options" && pkgPathOf(g) == v4pkg {
			f = g
		}
	}
	if f == nil {
		r.Undecided("C15-K8", "dhcpv4.Options.Update", "-", "not found")
		return
	}
	key := func(s string) string { return "dhcpv4.Options.Update: " + s }
	var mu *ssa.MapUpdate
	n := 0
	allInstrs(f, func(in ssa.Instruction) {
		if m, ok := in.(*ssa.MapUpdate); ok && m.Map == ssa.Value(f.Params[0]) {
			mu = m
			n++
		}
	})
	if mu == nil {
		r.Violation("C15-K8", key("stores into the receiver map"), c.P.pos(f.Pos()), "no store into the option map")
		return
	}
	okDom := n == 1
	for _, rb := range returnBlocks(f) {
		if !(mu.Block() == rb || mu.Block().Dominates(rb)) {
			okDom = false
		}
	}
	r.Check(okDom, "C15-K8", key("the store happens on every path"), c.P.ipos(mu), "the map store dominates every return",
		"Update can return without storing: a later modifier (or the caller's override) does not replace the value an earlier one stored")
	ks, vs := sx.Of(mu.Key).String(), sx.Of(mu.Value).String()
	r.Check(strings.Contains(ks, "Code]") && strings.Contains(ks, "field[Code]("), "C15-K8", key("keyed by the option's code"), c.P.ipos(mu), "symx", "key is "+ks)
	r.Check(strings.Contains(vs, "ToBytes]") && strings.Contains(vs, "field[Value]("), "C15-K8", key("value is the option's encoding"), c.P.ipos(mu), "symx", "value is "+vs)
	// UpdateOption delegates to it with its own argument
	var up *ssa.Function
	for _, g := range c.P.MethodsNamed("UpdateOption") {
		if n := recvNamed(g); n != nil && n.Obj().Name() == "DHCPv4" && pkgPathOf(g) == v4pkg {
			up = g
		}
	}
	if up == nil {
		r.Undecided("C15-K8", "dhcpv4.DHCPv4.UpdateOption", "-", "not found")
		return
	}
	var call *ssa.Call
	allInstrs(up, func(in ssa.Instruction) {
		if cl, ok := in.(*ssa.Call); ok && cl.Call.StaticCallee() == f {
			call = cl
		}
	})
	okUp := call != nil && len(call.Call.Args) == 2 && call.Call.Args[1] == ssa.Value(up.Params[1])
	if okUp {
		for _, rb := range returnBlocks(up) {
			if !(call.Block() == rb || call.Block().Dominates(rb)) {
				okUp = false
			}
		}
	}
	r.Check(okUp, "C15-K8", "dhcpv4.DHCPv4.UpdateOption: stores its argument through Options.Update on every path", c.P.pos(up.Pos()), "call dominates every return", "UpdateOption does not always store the option it is given")
}
