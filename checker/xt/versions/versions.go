// Copyright 2023 The Go Authors. All rights reserved.
// Use of this source code is governed by a BSD-style
// license that can be found in the LICENSE file.

package versions

import (
	"strings"
)

// Note: If we use build tags to use go/versions when go >=1.22,
// we run into go.dev/issue/53737. Under some operations users would see an
// import of "go/versions" even if they would not compile the file.
// For example, during `go get -u ./...` (go.dev/issue/64490) we do not try to include
// For this reason, this library just a clone of go/versions for the moment.

// Lang returns the Go language version for version x.
// If x is not a valid version, Lang returns the empty string.
// For example:
//
//	Lang("go1.21rc2") = "go1.21"
//	Lang("go1.21.2") = "go1.21"
//	Lang("go1.21") = "go1.21"
//	Lang("go1") = "go1"
//	Lang("bad") = ""
//	Lang("1.21") = ""
func Lang(x string) string {
	v := lang(stripGo(x))
	if v == "" {
		return ""
	}
	return x[:2+len(v)] // "go"+v without allocation
}

// Compare returns -1, 0, or +1 depending on whether
// x < y, x == y, or x > y, interpreted as Go versions.
// The versions x and y must begin with a "go" prefix: "go1.21" not "1.21".
// Invalid versions, including the empty string, compare less than
// valid versions and equal to each other.
// The language version "go1.21" compares less than the
// release candidate and eventual releases "go1.21rc1" and "go1.21.0".
// Custom toolchain suffixes are ignored during comparison:
// "go1.21.0" and "go1.21.0-bigcorp" are equal.
func Compare(x, y string) int { return compare(stripGo(x), stripGo(y)) }

// IsValid reports whether the version x is valid.
func IsValid(x string) bool { return isValid(stripGo(x)) }

// stripGo converts from a "go1.21" version to a "1.21" version.
// If v does not start with "go", stripGo returns the empty string (a known invalid version).
func stripGo(v string) string {
	v, _, _ = strings.Cut(v, "-") // strip -bigcorp suffix.
	if len(v) < 2 || v[:2] != "go" {
		return ""
	}
	return v[2:]
}
