package main

// C17 K1–K3: accessor / constructor / printer tables, fallback discipline, exact decoding of value types.

import (
	"fmt"
	"go/token"
	"go/types"
	"sort"
	"strings"

	"golang.org/x/tools/go/ssa"
)

const v4pkg = modPath + "/dhcpv4"

// optCodeConst: the integer value of an OptionCode operand (constant boxed into the OptionCode interface)
func optCodeConst(v ssa.Value) (int64, bool) {
	for {
		switch t := v.(type) {
		case *ssa.MakeInterface:
			v = t.X
			continue
		case *ssa.ChangeInterface:
			v = t.X
			continue
		case *ssa.Convert:
			v = t.X
			continue
		case *ssa.ChangeType:
			v = t.X
			continue
		}
		break
	}
	return intConst(v)
}

type accInfo struct {
	fn      *ssa.Function
	code    int64
	typ     string // decode type
	decCall *ssa.Call
	getCall *ssa.Call
	codeIdx int // helpers: which parameter is the option code
	// accessors that go through a presence helper (`ok := d.decodeOption(K, &m)`): the call and the decode target
	pres   *ssa.Call
	target ssa.Value
	decIdx int
}

// decodeTypeOf: what decodes the raw value v inside f
func decodeTypeOf(f *ssa.Function, v ssa.Value) (string, *ssa.Call) {
	for _, ref := range *v.Referrers() {
		switch t := ref.(type) {
		case *ssa.Call:
			sf := t.Call.StaticCallee()
			if sf == nil {
				continue
			}
			if strings.HasPrefix(sf.Name(), "FromBytes") && sf.Signature.Recv() != nil && len(t.Call.Args) == 2 && t.Call.Args[1] == v {
				return typeTag(sf.Signature.Recv().Type()), t
			}
			if sf.Name() == "FromBytes" && sf.Signature.Recv() == nil && pkgPathOf(sf) == modPath+"/rfc1035label" {
				return "rfc1035label.Labels", t
			}
		case *ssa.Convert:
			if bt, ok := t.Type().Underlying().(*types.Basic); ok && bt.Info()&types.IsString != 0 {
				return "dhcpv4.String", nil
			}
		case *ssa.Phi:
			if s, c := decodeTypeOf(f, t); s != "" {
				return s, c
			}
		}
	}
	return "", nil
}

func c17Accessors(c *Ctx) { c17AccessorsSel(c, nil) }

// c17AccessorsSel: with a non-nil selection only the provenance and fallback rules of the named accessors run
// (used by C13 for the accessors its matchers rely on)
func c17AccessorsSel(c *Ctx, only map[string]bool) {
	r := c.R
	r.Decides = append(r.Decides,
		"K1 table agreement: for each option code the typed accessor, the Opt* constructor and the printer table (getOption) use the same value type (listed exceptions: 54 printed as a list, 77 string/strings)",
		"K2 fallback discipline: on the decode-error edge and on the absent edge every accessor returns a value that does not derive from the decode target (nil, zero, the caller's default or the documented raw fallback)",
		"K5 string accessors return the decoded string itself or strings.TrimRight(s, NUL) of it (also through an in-module helper with exactly that body)",
		"K3 exactness: every DHCPv4 value type's FromBytes accepts only inputs it consumes exactly (tiling rule shared with C05-K1; RelayOptions follows the C04 option-list rule)")
	sp := c.P.SSAPkg[v4pkg]
	if sp == nil {
		r.Undecided("C17-K1", "dhcpv4 package", "-", "not loaded")
		return
	}
	// helpers: functions taking (code OptionCode, o Options) decoding with one type
	helpers := map[*ssa.Function]*accInfo{}
	var accs []*accInfo
	var getCalls = func(f *ssa.Function) []*ssa.Call {
		var out []*ssa.Call
		allInstrs(f, func(in ssa.Instruction) {
			if cl, ok := in.(*ssa.Call); ok {
				if sf := cl.Call.StaticCallee(); sf != nil && sf.Name() == "Get" && recvNamed(sf) != nil && recvNamed(sf).Obj().Name() == "Options" && pkgPathOf(sf) == v4pkg {
					out = append(out, cl)
				}
			}
		})
		return out
	}
	for _, f := range c.P.ModuleFuncs() {
		// a helper: any function or method of the package that looks up ONE option whose code is one of its own parameters
		// (GetString(code, o), (*DHCPv4).durationOr(code, def), …) and decodes it with one type
		if pkgPathOf(f) != v4pkg || f.Parent() != nil {
			continue
		}
		gs := getCalls(f)
		if len(gs) != 1 {
			continue
		}
		if prm, ok := gs[0].Call.Args[1].(*ssa.Parameter); ok {
			for i, p := range f.Params {
				if p == prm {
					t, dc := decodeTypeOf(f, gs[0])
					helpers[f] = &accInfo{fn: f, typ: t, decCall: dc, getCall: gs[0], codeIdx: i}
				}
			}
		}
	}
	// presence helpers: h(code, dec) bool — looks up the option whose code is a parameter, returns false when it is absent,
	// else decodes it into the decoder it was handed (an interface parameter) and returns "no error"
	presence := map[*ssa.Function]*accInfo{}
	for _, f := range c.P.ModuleFuncs() {
		if pkgPathOf(f) != v4pkg || f.Parent() != nil || (helpers[f] != nil && helpers[f].typ != "") {
			continue
		}
		if h := c17PresenceHelper(c, f, getCalls(f)); h != nil {
			presence[f] = h
			delete(helpers, f)
		}
	}
	// accessors: exported methods of *DHCPv4 reading one constant code
	for _, f := range c.P.ModuleFuncs() {
		if pkgPathOf(f) != v4pkg || f.Parent() != nil || recvNamed(f) == nil || recvNamed(f).Obj().Name() != "DHCPv4" {
			continue
		}
		var info *accInfo
		for _, g := range getCalls(f) {
			if k, ok := optCodeConst(g.Call.Args[1]); ok {
				t, dc := decodeTypeOf(f, g)
				info = &accInfo{fn: f, code: k, typ: t, decCall: dc, getCall: g}
			}
		}
		if info == nil {
			allInstrs(f, func(in ssa.Instruction) {
				cl, ok := in.(*ssa.Call)
				if !ok || cl.Call.StaticCallee() == nil {
					return
				}
				if h, ok := helpers[cl.Call.StaticCallee()]; ok && info == nil && h.codeIdx < len(cl.Call.Args) {
					if k, ok := optCodeConst(cl.Call.Args[h.codeIdx]); ok {
						info = &accInfo{fn: f, code: k, typ: h.typ, decCall: h.decCall, getCall: h.getCall}
					}
				}
				if h, ok := presence[cl.Call.StaticCallee()]; ok && info == nil && h.codeIdx < len(cl.Call.Args) && h.decIdx < len(cl.Call.Args) {
					if k, ok := optCodeConst(cl.Call.Args[h.codeIdx]); ok {
						if mi, isMI := cl.Call.Args[h.decIdx].(*ssa.MakeInterface); isMI {
							info = &accInfo{fn: f, code: k, typ: typeTag(mi.X.Type()), getCall: h.getCall, pres: cl, target: mi.X}
						}
					}
				}
			})
		}
		if info != nil && info.typ != "" {
			accs = append(accs, info)
		}
	}
	sort.Slice(accs, func(i, j int) bool { return funcKey(accs[i].fn) < funcKey(accs[j].fn) })
	if only != nil {
		n := 0
		for _, a := range accs {
			if only[a.fn.Name()] {
				n++
				if a.pres != nil {
					c17PresenceFallback(c, a)
				} else {
					c17Fallback(c, a)
				}
				c17Provenance(c, a, helpers)
			}
		}
		r.Count("C17-K6-selected-accessors", n)
		r.Expect("C17-K6-selected-accessors", len(only))
		return
	}
	r.Count("C17-K1-accessors", len(accs))
	r.Expect("C17-K1-accessors", 28)
	// constructors: Opt* functions returning Option{Code: K, Value: T}
	ctors := map[int64][]string{}
	nCtor := 0
	for _, f := range c.P.ModuleFuncs() {
		if pkgPathOf(f) != v4pkg || f.Parent() != nil || f.Signature.Recv() != nil || !strings.HasPrefix(f.Name(), "Opt") {
			continue
		}
		if f.Signature.Results().Len() != 1 || !namedIs(f.Signature.Results().At(0).Type(), v4pkg, "Option") {
			continue
		}
		var code int64 = -1
		typ := ""
		allInstrs(f, func(in ssa.Instruction) {
			st, ok := in.(*ssa.Store)
			if !ok {
				return
			}
			fa, ok := st.Addr.(*ssa.FieldAddr)
			if !ok || !namedIs(fa.X.Type(), v4pkg, "Option") {
				return
			}
			switch derefStruct(fa.X.Type()).Field(fa.Field).Name() {
			case "Code":
				if k, ok := optCodeConst(st.Val); ok {
					code = k
				}
			case "Value":
				typ = typeTag(unboxedType(st.Val))
			}
		})
		if code >= 0 && typ != "" {
			nCtor++
			ctors[code] = append(ctors[code], typ+" ("+f.Name()+")")
		}
	}
	r.Count("C17-K1-constructors", nCtor)
	r.Expect("C17-K1-constructors", 25)
	// printer table
	printer := map[int64]string{}
	if g0 := c.P.Func(v4pkg + ".getOption"); g0 != nil {
		// the table is the switch over the option-code parameter of getOption, or of an unexported function of the
		// package that getOption calls for the decoder (decoderFor(code, data, vendor) returning one decoder per case)
		tables := []*ssa.Function{g0}
		allInstrs(g0, func(in ssa.Instruction) {
			if ci, ok := in.(ssa.CallInstruction); ok {
				if cal := ci.Common().StaticCallee(); cal != nil && pkgPathOf(cal) == v4pkg && cal.Blocks != nil && cal != g0 {
					tables = append(tables, cal)
				}
			}
		})
		for _, g := range tables {
			var codeParam ssa.Value
			for _, pa := range g.Params {
				if namedIs(pa.Type(), v4pkg, "OptionCode") && codeParam == nil {
					codeParam = pa
				}
			}
			if codeParam == nil {
				continue
			}
			for _, b := range g.Blocks {
				iff := ifOf(b)
				if iff == nil {
					continue
				}
				bo, ok := iff.Cond.(*ssa.BinOp)
				if !ok {
					continue
				}
				var k int64
				var okk bool
				if bo.X == codeParam {
					k, okk = optCodeConst(bo.Y)
				} else if bo.Y == codeParam {
					k, okk = optCodeConst(bo.X)
				}
				if !okk {
					continue
				}
				// the case body: first block reachable from the true edge that allocates a named decoder
				seen := map[*ssa.BasicBlock]bool{}
				cur := b.Succs[0]
				for i := 0; i < 4 && cur != nil && !seen[cur]; i++ {
					seen[cur] = true
					found := false
					for _, in := range cur.Instrs {
						if al, ok := in.(*ssa.Alloc); ok && al.Heap {
							if _, named := al.Type().(*types.Pointer).Elem().(*types.Named); named && printer[k] == "" {
								printer[k] = typeTag(al.Type())
								found = true
							}
						}
					}
					if found || len(cur.Succs) != 1 {
						break
					}
					cur = cur.Succs[0]
				}
			}
		}
	} else {
		r.Undecided("C17-K1", "dhcpv4.getOption", "-", "printer table not found")
	}
	r.Count("C17-K1-printer-cases", len(printer))
	r.Expect("C17-K1-printer-cases", 30)
	exceptions := map[string]string{
		"54/printer": "option 54 (server identifier) is printed with the list type although the accessor reads one address (a single address is a valid one-element list)",
		"77/printer": "option 77 (user class) is printed as RFC 3004 strings with a raw-string fallback, mirrored by the accessor's documented fallback",
	}
	for _, a := range accs {
		name := shortName(a.fn)
		for _, ct := range ctors[a.code] {
			t := strings.SplitN(ct, " ", 2)[0]
			if a.code == 77 && t == "dhcpv4.String" {
				r.Ledger("C17-K1", fmt.Sprintf("%s (code 77): constructor %s stores a raw string", name, ct), c.P.pos(a.fn.Pos()), "listed exception",
					"option 77 exists in two wire forms (RFC 3004 length-prefixed strings and the raw string used by Microsoft clients); the accessor falls back to the raw form when the strings form does not parse (documented)")
				continue
			}
			r.Check(t == a.typ, "C17-K1", fmt.Sprintf("%s (code %d) and constructor %s use the same value type", name, a.code, ct), c.P.pos(a.fn.Pos()), "accessor decode type = constructor value type",
				fmt.Sprintf("accessor decodes code %d as %s but the constructor stores %s: set-then-get does not return the value set", a.code, a.typ, t))
		}
		if pt, ok := printer[a.code]; ok {
			if pt == a.typ {
				r.OK("C17-K1", fmt.Sprintf("%s (code %d) and the printer table use %s", name, a.code, a.typ), c.P.pos(a.fn.Pos()), "accessor decode type = getOption case type", "")
			} else if why, ex := exceptions[fmt.Sprintf("%d/printer", a.code)]; ex {
				r.Ledger("C17-K1", fmt.Sprintf("%s (code %d): printer uses %s, accessor %s", name, a.code, pt, a.typ), c.P.pos(a.fn.Pos()), "listed exception", why)
			} else {
				r.Violation("C17-K1", fmt.Sprintf("%s (code %d) and the printer table use the same value type", name, a.code), c.P.pos(a.fn.Pos()), "accessor decodes as "+a.typ+", Summary prints as "+pt)
			}
		}
		if a.pres != nil {
			c17PresenceFallback(c, a)
		} else {
			c17Fallback(c, a)
		}
		c17StringTransform(c, a)
		c17Provenance(c, a, helpers)
		c17KeepsDecoded(c, "C17-K12", a)
	}
	// the shared string helper itself returns the raw bytes as a string (no trimming for everybody)
	for _, h := range helpers {
		f := h.fn
		if f.Signature.Results().Len() != 1 {
			continue
		}
		if bt, ok := f.Signature.Results().At(0).Type().Underlying().(*types.Basic); !ok || bt.Info()&types.IsString == 0 {
			continue
		}
		okAll := true
		got := ""
		for _, ret := range returnsOf(f) {
			s := c.Sx().Of(ret.Results[0]).String()
			if !(strings.HasPrefix(s, "conv[string](") && !strings.Contains(s, "call[strings.") && !strings.Contains(s, "call[bytes.")) && !strings.HasPrefix(s, "const(") {
				okAll = false
				got = s
			}
		}
		r.Check(okAll, "C17-K5", shortName(f)+": the shared string helper returns string(raw value) unchanged", c.P.pos(f.Pos()), "symx of every return", "the helper every string accessor goes through returns "+got+": all string options are transformed, not only the three documented NUL-tolerant ones")
	}
	// K3 exactness of the value types
	var decs []*ssa.Function
	for f := range decodeEntries(c.P) {
		if pkgPathOf(f) == v4pkg && f.Signature.Recv() != nil {
			decs = append(decs, f)
		}
	}
	sortFuncs(decs)
	k1 := tilingSet(c, decs)
	for _, f := range decs {
		n := shortName(f)
		if strings.Contains(n, "Options).") {
			continue // the option list itself: C04-K2
		}
		tilingCheck(c, "C17-K3", f, k1)
	}
	r.Count("C17-K3-value-decoders", len(decs))
	r.Expect("C17-K3-value-decoders", 12)
}

// c17Fallback: K2
func c17Fallback(c *Ctx, a *accInfo) {
	r, sx := c.R, c.Sx()
	f := a.getCall.Parent()
	name := shortName(f)
	// absent edge: v == nil
	for _, b := range f.Blocks {
		iff := ifOf(b)
		if iff == nil {
			continue
		}
		if nilE, _, ok := nilEdgesOf(iff, func(v ssa.Value) bool { return v == ssa.Value(a.getCall) }); ok {
			if ret, isRet := nilE.To.Instrs[len(nilE.To.Instrs)-1].(*ssa.Return); isRet {
				bad := ""
				for _, res := range ret.Results {
					if sx.Of(res).Contains(func(s *Sx) bool { return s.V == ssa.Value(a.getCall) && false }) {
						bad = sx.Of(res).String()
					}
					if !fallbackValueOK(res, nil) {
						bad = sx.Of(res).String()
					}
				}
				r.Check(bad == "", "C17-K2", name+": absent option yields the documented default", c.P.ipos(ret), "returned value is a constant, a parameter or a fresh error", "absent edge returns "+bad)
			}
		}
	}
	if a.decCall == nil || a.decCall.Parent() != f {
		return
	}
	var errv ssa.Value = a.decCall
	if a.decCall.Call.Signature().Results().Len() > 1 {
		if ex := extractOf(a.decCall, a.decCall.Call.Signature().Results().Len()-1); ex != nil {
			errv = ex
		}
	}
	// decode target
	var target ssa.Value
	if a.decCall.Call.StaticCallee().Signature.Recv() != nil {
		target = a.decCall.Call.Args[0]
	}
	found := false
	for _, b := range f.Blocks {
		iff := ifOf(b)
		if iff == nil {
			continue
		}
		if _, nn, ok := nilEdgesOf(iff, func(v ssa.Value) bool { return v == errv }); ok {
			found = true
			if ret, isRet := nn.To.Instrs[len(nn.To.Instrs)-1].(*ssa.Return); isRet {
				bad := ""
				for _, res := range ret.Results {
					if isErrorType(res.Type()) {
						continue
					}
					if !fallbackValueOK(res, target) {
						bad = sx.Of(res).String()
					}
				}
				r.Check(bad == "", "C17-K2", name+": malformed value yields the documented default, never a partial decode", c.P.ipos(ret), "value returned on the error edge does not derive from the decode target",
					"on a decode error the accessor returns "+bad+", which derives from the partially filled decode target: a truncated or misaligned value is reported as if it were valid")
			} else {
				r.Violation("C17-K2", name+": decode error returns at once", c.P.ipos(iff), "the error edge does not return: the partially decoded value flows on")
			}
		}
	}
	if !found {
		r.Violation("C17-K2", name+": decode error is tested", c.P.ipos(a.decCall), "the error of "+shortName(a.decCall.Call.StaticCallee())+" is not branched on: malformed values are returned as decoded")
	}
	// K11 the converse: a value that is present and well-formed is what the accessor reports. Every return that can be
	// reached without taking the absent edge or the decode-error edge yields a value derived from the decode target —
	// no further test (a range check, a class of addresses, a flag) may turn a well-formed value into the default.
	if target != nil {
		var via []Edge
		for _, b := range f.Blocks {
			iff := ifOf(b)
			if iff == nil {
				continue
			}
			if nilE, _, ok := nilEdgesOf(iff, func(v ssa.Value) bool { return v == ssa.Value(a.getCall) }); ok {
				via = append(via, nilE)
			}
			if _, nn, ok := nilEdgesOf(iff, func(v ssa.Value) bool { return v == errv }); ok {
				via = append(via, nn)
			}
			// len(v) == 0 style absent tests on the looked-up bytes
			if bo, ok := iff.Cond.(*ssa.BinOp); ok && (bo.Op == token.EQL || bo.Op == token.NEQ) {
				if lenOperand(bo.X) == ssa.Value(a.getCall) || lenOperand(bo.Y) == ssa.Value(a.getCall) {
					if k, isK := intConst(bo.Y); isK && k == 0 {
						e := Edge{b, b.Succs[0]}
						if bo.Op == token.NEQ {
							e = Edge{b, b.Succs[1]}
						}
						via = append(via, e)
					}
				}
			}
		}
		for _, ret := range returnsOf(f) {
			if len(via) > 0 && mustPassEdges(f, ret.Block(), via...) {
				continue
			}
			if len(ret.Results) == 0 || isErrorType(ret.Results[0].Type()) {
				continue
			}
			if fallbackValueOK(ret.Results[0], target) {
				r.Violation("C17-K11", name+": a present, well-formed value is reported (not the default)", c.P.ipos(ret),
					"this return is reachable although the option is present and decoded without error, and what it yields ("+sx.Of(ret.Results[0]).String()+") does not derive from the decoded value: some well-formed values are reported as absent")
			} else {
				r.OK("C17-K11", name+": a present, well-formed value is reported (not the default)", c.P.ipos(ret), "success-path return derives from the decode target", "")
			}
		}
	}
}

// fallbackValueOK: the value does not derive from the decode target (by SSA reachability through operands)
func fallbackValueOK(v ssa.Value, target ssa.Value) bool {
	seen := map[ssa.Value]bool{}
	var dep func(x ssa.Value, d int) bool
	dep = func(x ssa.Value, d int) bool {
		if x == nil || seen[x] || d > 8 {
			return false
		}
		seen[x] = true
		if target != nil && x == target {
			return true
		}
		in, ok := x.(ssa.Instruction)
		if !ok {
			return false
		}
		var ops []*ssa.Value
		for _, o := range in.Operands(ops) {
			if *o != nil && dep(*o, d+1) {
				return true
			}
		}
		return false
	}
	return !dep(v, 0)
}

// c17StringTransform: K5 — a string-valued accessor returns the decoded string itself, or the decoded string
// with trailing NULs removed (strings.TrimRight(s, "\x00"): the documented tolerance for NUL-terminated
// names), possibly through an in-module helper whose body is exactly one of these. Any other post-processing
// (cutting at the first NUL, trimming spaces, case folding, …) changes the interpretation of well-formed values.
func c17StringTransform(c *Ctx, a *accInfo) {
	r, sx := c.R, c.Sx()
	f := a.fn
	if f.Signature.Results().Len() != 1 {
		return
	}
	bt, ok := f.Signature.Results().At(0).Type().Underlying().(*types.Basic)
	if !ok || bt.Info()&types.IsString == 0 {
		return
	}
	name := shortName(f)
	var classify func(s string, depth int) string
	classify = func(s string, depth int) string {
		switch {
		case strings.HasPrefix(s, "call[dhcpv4.GetString]("), strings.HasPrefix(s, "conv[string]("):
			return "plain"
		case strings.HasPrefix(s, "const("):
			return "plain"
		case strings.HasPrefix(s, "call[strings.TrimRight](") && strings.HasSuffix(s, `,const("\x00"))`):
			inner := s[len("call[strings.TrimRight](") : len(s)-len(`,const("\x00"))`)]
			if classify(inner, depth) == "plain" {
				return "trimNULs"
			}
		}
		return ""
	}
	var judge func(v ssa.Value, depth int) string
	judge = func(v ssa.Value, depth int) string {
		if k := classify(sx.Of(v).String(), depth); k != "" {
			return k
		}
		if ph, ok := v.(*ssa.Phi); ok {
			res := "plain"
			for _, e := range ph.Edges {
				k := judge(e, depth)
				if k == "" {
					return ""
				}
				if k != "plain" {
					res = k
				}
			}
			return res
		}
		// in-module helper applied to a plain value: its single return, with the parameter substituted
		if cl, ok := v.(*ssa.Call); ok && depth < 2 {
			if sf := cl.Call.StaticCallee(); sf != nil && inModule(sf) && sf.Blocks != nil && len(cl.Call.Args) >= 1 {
				rets := returnsOf(sf)
				if len(rets) == 1 && len(rets[0].Results) == 1 {
					body := sx.Of(rets[0].Results[0]).String()
					for i, arg := range cl.Call.Args {
						if i < len(sf.Params) {
							body = strings.ReplaceAll(body, sx.Of(sf.Params[i]).String(), sx.Of(arg).String())
						}
					}
					return classify(body, depth+1)
				}
			}
		}
		return ""
	}
	for _, ret := range returnsOf(f) {
		k := judge(ret.Results[0], 0)
		if k == "" {
			r.Violation("C17-K5", name+fmt.Sprintf(" (code %d): the string returned is the decoded value, at most with trailing NULs removed", a.code), c.P.ipos(ret),
				"the accessor returns "+sx.Of(ret.Results[0]).String()+": a transform other than strings.TrimRight(s, \"\\x00\") is applied to the decoded string, so a well-formed value is not returned as the RFC 2132 interpretation of its bytes")
			return
		}
	}
	r.OK("C17-K5", name+fmt.Sprintf(" (code %d): the string returned is the decoded value, at most with trailing NULs removed", a.code), c.P.pos(f.Pos()), "symx of every return", "")
	r.Count("C17-K5-string-accessors", 1)
	r.Expect("C17-K5-string-accessors", 6)
}

// c17Provenance: K6 — what an accessor returns derives only from the option it reads (through the lookup or
// the Get* helper), from constants and from its own non-receiver parameters (the caller's default). Another
// part of the packet (a header field, another option) mixed in on some path makes the accessor disagree with
// the raw option bytes — e.g. ServerIdentifier() falling back to siaddr when option 54 is absent.
func c17Provenance(c *Ctx, a *accInfo, helpers map[*ssa.Function]*accInfo) {
	r := c.R
	f := a.fn
	if len(f.Params) == 0 {
		return
	}
	recv := ssa.Value(f.Params[0])
	isLookup := func(v ssa.Value) bool {
		cl, ok := v.(*ssa.Call)
		if !ok || cl.Call.StaticCallee() == nil {
			return false
		}
		sf := cl.Call.StaticCallee()
		if _, isH := helpers[sf]; isH {
			return true
		}
		if sf.Name() == "Get" || sf.Name() == "Has" || sf.Name() == "GetOneOption" {
			return true
		}
		return false
	}
	bad := ""
	seen := map[ssa.Value]bool{}
	var walk func(v ssa.Value, d int)
	walk = func(v ssa.Value, d int) {
		if v == nil || seen[v] || d > 12 || bad != "" {
			return
		}
		seen[v] = true
		if v == recv {
			bad = "the receiver"
			return
		}
		if isLookup(v) {
			return
		}
		switch t := v.(type) {
		case *ssa.Parameter, *ssa.Const, *ssa.Global, *ssa.FreeVar, *ssa.Function, *ssa.Builtin:
			return
		case *ssa.FieldAddr:
			if t.X == recv {
				bad = "field " + derefStruct(t.X.Type()).Field(t.Field).Name() + " of the packet"
				return
			}
		case *ssa.Alloc:
			// local cell: what is stored into it
			for _, ref := range *t.Referrers() {
				if st, ok := ref.(*ssa.Store); ok && st.Addr == ssa.Value(t) {
					walk(st.Val, d+1)
				}
			}
			return
		}
		in, ok := v.(ssa.Instruction)
		if !ok {
			return
		}
		var ops []*ssa.Value
		for _, o := range in.Operands(ops) {
			if *o != nil {
				walk(*o, d+1)
			}
		}
	}
	for _, ret := range returnsOf(f) {
		for _, res := range ret.Results {
			if isErrorType(res.Type()) {
				continue
			}
			walk(res, 0)
		}
	}
	r.Check(bad == "", "C17-K6", fmt.Sprintf("%s (code %d): the result derives only from that option, constants and the caller's default", shortName(f), a.code), c.P.pos(f.Pos()), "dependency walk of every returned value stops at the option lookup",
		"a returned value depends on "+bad+" without going through the option lookup: on some path the accessor reports something other than the interpretation of option "+fmt.Sprint(a.code))
}

// c17Ctors: K9 — "setting an option through its typed constructor and reading it back returns the value that was
// set": every exported Opt* constructor of dhcpv4 stores the caller's argument itself as the option value —
// converted to the value type, wrapped in a composite literal, or handed whole to one of the reviewed helper
// functions — and not a value assembled by calling methods on a local (which may drop, reorder or rewrite elements).
var c17CtorHelpers = map[string]string{
	"dhcpv4.OptionsFromList": "relay-agent sub-options are a map keyed by code by design (one value per code, documented)",
	"dhcpv4.OptGeneric":      "delegation to the generic constructor",
}

func c17Ctors(c *Ctx) {
	r := c.R
	n := 0
	for _, f := range c.P.ModuleFuncs() {
		if pkgPathOf(f) != modPath+"/dhcpv4" || f.Parent() != nil || f.Signature.Recv() != nil || !token.IsExported(f.Name()) || !strings.HasPrefix(f.Name(), "Opt") {
			continue
		}
		res := f.Signature.Results()
		if res.Len() != 1 || !namedIs(res.At(0).Type(), modPath+"/dhcpv4", "Option") {
			continue
		}
		n++
		name := shortName(f)
		var form func(v ssa.Value, d int) string
		var formAlloc func(al *ssa.Alloc, d int) string
		formAlloc = func(al *ssa.Alloc, d int) string {
			for _, ref := range *al.Referrers() {
				switch u := ref.(type) {
				case *ssa.FieldAddr:
					for _, r2 := range *u.Referrers() {
						if st, ok := r2.(*ssa.Store); ok && st.Addr == ssa.Value(u) {
							if s := form(st.Val, d+1); s != "" {
								return s
							}
						} else {
							return "field of a local used by " + r2.String()
						}
					}
				case *ssa.IndexAddr:
					for _, r2 := range *u.Referrers() {
						if st, ok := r2.(*ssa.Store); ok && st.Addr == ssa.Value(u) {
							if s := form(st.Val, d+1); s != "" {
								return s
							}
						}
					}
				case *ssa.Store:
					if u.Addr == ssa.Value(al) {
						if s := form(u.Val, d+1); s != "" {
							return s
						}
					}
				case *ssa.UnOp, *ssa.Slice, *ssa.DebugRef:
				case ssa.CallInstruction:
					if isBuiltinCall(u.Common(), "copy") && len(u.Common().Args) == 2 {
						if s := form(u.Common().Args[1], d+1); s != "" {
							return s
						}
						continue
					}
					return "a local variable filled by " + calleeName(u.Common())
				default:
					return "a local variable used by " + ref.String()
				}
			}
			return ""
		}
		form = func(v ssa.Value, d int) string {
			if d > 8 {
				return "too deep"
			}
			switch t := v.(type) {
			case *ssa.MakeInterface:
				return form(t.X, d+1)
			case *ssa.ChangeType:
				return form(t.X, d+1)
			case *ssa.Convert:
				return form(t.X, d+1)
			case *ssa.Parameter, *ssa.Const:
				return ""
			case *ssa.Slice:
				return form(t.X, d+1)
			case *ssa.UnOp:
				if t.Op == token.MUL {
					if al, ok := t.X.(*ssa.Alloc); ok {
						return formAlloc(al, d)
					}
				}
			case *ssa.Call:
				if isBuiltinCall(t.Common(), "append") {
					for _, a := range t.Call.Args {
						if k, isK := a.(*ssa.Const); isK && k.Value == nil {
							continue
						}
						if s := form(a, d+1); s != "" {
							return s
						}
					}
					return ""
				}
				if sf := t.Call.StaticCallee(); sf != nil {
					if _, ok := c17CtorHelpers[shortName(sf)]; ok {
						for _, a := range t.Call.Args {
							if s := form(a, d+1); s != "" {
								return s
							}
						}
						return ""
					}
					if !inModule(sf) {
						// net.IP.To4 and the like: conversions of the argument
						for _, a := range t.Call.Args {
							if s := form(a, d+1); s != "" {
								return s
							}
						}
						return ""
					}
					return "the result of " + shortName(sf)
				}
			case *ssa.MakeSlice:
				// a fresh slice: judged by what is copied into it
				for _, ref := range *t.Referrers() {
					if ci, ok := ref.(ssa.CallInstruction); ok {
						if isBuiltinCall(ci.Common(), "copy") && len(ci.Common().Args) == 2 && ci.Common().Args[0] == ssa.Value(t) {
							if s := form(ci.Common().Args[1], d+1); s != "" {
								return s
							}
							continue
						}
						if isBuiltinCall(ci.Common(), "len") || isBuiltinCall(ci.Common(), "cap") {
							continue
						}
						return "a fresh slice filled by " + calleeName(ci.Common())
					}
				}
				return ""
			case *ssa.Alloc:
				// address of a composite literal (pointer-typed values)
				return formAlloc(t, d+1)
			}
			return "a computed value (" + shortDesc(v, 3) + ")"
		}
		bad := ""
		nVal := 0
		allInstrs(f, func(in ssa.Instruction) {
			st, ok := in.(*ssa.Store)
			if !ok {
				return
			}
			fa, ok := st.Addr.(*ssa.FieldAddr)
			if !ok || !namedIs(fa.X.Type(), modPath+"/dhcpv4", "Option") {
				return
			}
			if derefStruct(fa.X.Type()).Field(fa.Field).Name() != "Value" {
				return
			}
			nVal++
			if s := form(st.Val, 0); s != "" && bad == "" {
				bad = s
			}
		})
		if nVal == 0 {
			// delegation: returns the result of another constructor / helper
			for _, ret := range returnsOf(f) {
				if s := form(ret.Results[0], 0); s != "" && bad == "" {
					bad = s
				}
			}
		}
		r.Check(bad == "", "C17-K9", name+": stores the caller's value itself", c.P.pos(f.Pos()), "value form: parameter, conversion, composite literal or reviewed helper",
			"the option value is "+bad+": what is read back need not be what was set (elements dropped, reordered or rewritten)")
	}
	r.Count("C17-K9-constructors", n)
	r.Expect("C17-K9-constructors", 30)
}

// c17KeepsDecoded: K12 — between the decode and its return an accessor does not rewrite the value it decoded: no store
// through an address rooted at the decode target (its fields, their elements), no copy into it, and no module callee
// that writes memory reachable from it (E3 mutation summary). A value-dependent edit of the decoded result
// (dropping empty names, clamping, sorting) makes the accessor disagree with the raw option bytes.
func c17KeepsDecoded(c *Ctx, rule string, a *accInfo) {
	r := c.R
	if a.decCall == nil {
		return
	}
	f := a.decCall.Parent()
	name := shortName(a.fn)
	if f != a.fn {
		name += " (through " + shortName(f) + ")"
	}
	var roots []ssa.Value
	if sf := a.decCall.Call.StaticCallee(); sf != nil && sf.Signature.Recv() != nil {
		roots = append(roots, a.decCall.Call.Args[0])
	} else {
		for _, ref := range *a.decCall.Referrers() {
			if ex, ok := ref.(*ssa.Extract); ok && ex.Index == 0 {
				roots = append(roots, ex)
			}
		}
		if a.decCall.Type() != nil {
			if _, isTuple := a.decCall.Type().(*types.Tuple); !isTuple {
				roots = append(roots, a.decCall)
			}
		}
	}
	isRoot := map[ssa.Value]bool{}
	for _, v := range roots {
		isRoot[v] = true
	}
	var rooted func(v ssa.Value, d int) bool
	rooted = func(v ssa.Value, d int) bool {
		if v == nil || d > 10 {
			return false
		}
		if isRoot[v] {
			return true
		}
		switch x := v.(type) {
		case *ssa.FieldAddr:
			return rooted(x.X, d+1)
		case *ssa.IndexAddr:
			return rooted(x.X, d+1)
		case *ssa.UnOp:
			return rooted(x.X, d+1)
		case *ssa.Slice:
			return rooted(x.X, d+1)
		case *ssa.ChangeType:
			return rooted(x.X, d+1)
		case *ssa.Phi:
			for _, e := range x.Edges {
				if _, isPhi := e.(*ssa.Phi); !isPhi && rooted(e, d+1) {
					return true
				}
			}
		}
		return false
	}
	after := reachFromSuccs(a.decCall.Block(), nil, nil)
	bad, pos := "", ""
	e := getE3(c)
	for _, b := range f.Blocks {
		for i, in := range b.Instrs {
			// only what follows the decode call
			follows := after[b]
			if b == a.decCall.Block() {
				follows = follows || indexOfInstr(b, a.decCall) < i
			}
			if !follows {
				continue
			}
			switch x := in.(type) {
			case *ssa.Store:
				if rooted(x.Addr, 0) {
					bad, pos = "a store to "+c.Sx().Of(x.Addr).String(), c.P.ipos(x)
				}
			case *ssa.Call:
				if x == a.decCall {
					continue
				}
				if bi, ok := x.Call.Value.(*ssa.Builtin); ok {
					if bi.Name() == "copy" && rooted(x.Call.Args[0], 0) {
						bad, pos = "a copy into the decoded value", c.P.ipos(x)
					}
					continue
				}
				sf := x.Call.StaticCallee()
				if sf == nil || !inModule(sf) || sf.Blocks == nil {
					continue
				}
				ps := map[int]bool{}
				for j, arg := range x.Call.Args {
					if rooted(arg, 0) {
						if _, isPtrLike := arg.Type().Underlying().(*types.Basic); !isPtrLike {
							ps[j] = true
						}
					}
				}
				if len(ps) == 0 {
					continue
				}
				for _, fd := range e.mutationFindings(sf, ps) {
					if !strings.HasPrefix(fd.short, "UNDECIDED") {
						bad, pos = shortName(sf)+" writes "+fd.short, c.P.ipos(x)
						break
					}
				}
			}
		}
	}
	if bad == "" {
		r.OK(rule, name+": the decoded value is returned as decoded", c.P.pos(a.fn.Pos()), "no store, copy or writing callee rooted at the decode target after the decode", "")
		return
	}
	r.Violation(rule, name+": the decoded value is returned as decoded", pos, "after decoding, the accessor rewrites the value it decoded ("+bad+"): what it returns is no longer what the option's bytes say")
}

func indexOfInstr(b *ssa.BasicBlock, in ssa.Instruction) int {
	for i, x := range b.Instrs {
		if x == in {
			return i
		}
	}
	return -1
}

// c17PresenceHelper: f is `func (…) h(code, dec) bool { v := Options.Get(code); if v == nil { return false }; return dec.FromBytes(v) == nil }`
// in any spelling: one lookup by a parameter code, the absent edge returns the constant false, exactly one FromBytes
// invoked on an interface parameter with the looked-up bytes, and every other return yields `err == nil` of that call.
func c17PresenceHelper(c *Ctx, f *ssa.Function, gets []*ssa.Call) *accInfo {
	if len(gets) != 1 || f.Blocks == nil || f.Signature.Results().Len() != 1 {
		return nil
	}
	if bt, ok := f.Signature.Results().At(0).Type().Underlying().(*types.Basic); !ok || bt.Kind() != types.Bool {
		return nil
	}
	get := gets[0]
	codeIdx, decIdx := -1, -1
	if prm, ok := get.Call.Args[1].(*ssa.Parameter); ok {
		for i, p := range f.Params {
			if p == prm {
				codeIdx = i
			}
		}
	}
	if codeIdx < 0 {
		return nil
	}
	var dec *ssa.Call
	nCalls := 0
	allInstrs(f, func(in ssa.Instruction) {
		cl, ok := in.(*ssa.Call)
		if !ok || cl == get {
			return
		}
		if _, isB := cl.Call.Value.(*ssa.Builtin); isB {
			return
		}
		nCalls++
		if cl.Call.IsInvoke() && cl.Call.Method.Name() == "FromBytes" && len(cl.Call.Args) == 1 && cl.Call.Args[0] == ssa.Value(get) {
			if prm, ok := cl.Call.Value.(*ssa.Parameter); ok {
				for i, p := range f.Params {
					if p == prm {
						decIdx = i
						dec = cl
					}
				}
			}
		}
	})
	if dec == nil || nCalls != 1 {
		return nil
	}
	// no other effects
	pure := true
	allInstrs(f, func(in ssa.Instruction) {
		switch in.(type) {
		case *ssa.Store, *ssa.MapUpdate, *ssa.Send, *ssa.Go, *ssa.Defer:
			pure = false
		}
	})
	if !pure {
		return nil
	}
	// returns: false on the absent edge; err == nil otherwise
	var okRet func(v ssa.Value, d int) bool
	okRet = func(v ssa.Value, d int) bool {
		if d > 4 {
			return false
		}
		switch t := v.(type) {
		case *ssa.Const:
			return t.Value != nil && t.Value.String() == "false"
		case *ssa.BinOp:
			return t.Op == token.EQL && ((t.X == ssa.Value(dec) && isNilConst(t.Y)) || (t.Y == ssa.Value(dec) && isNilConst(t.X)))
		case *ssa.Phi:
			for _, e := range t.Edges {
				if !okRet(e, d+1) {
					return false
				}
			}
			return true
		}
		return false
	}
	for _, ret := range returnsOf(f) {
		if !okRet(ret.Results[0], 0) {
			return nil
		}
	}
	// the decode is reached only with a non-nil lookup result
	guarded := false
	for _, b := range f.Blocks {
		if iff := ifOf(b); iff != nil {
			if nilE, _, ok := nilEdgesOf(iff, func(v ssa.Value) bool { return v == ssa.Value(get) }); ok {
				if !reachFromSuccs(nilE.To, nil, nil)[dec.Block()] && nilE.To != dec.Block() {
					guarded = true
				}
			}
		}
	}
	if !guarded {
		return nil
	}
	return &accInfo{fn: f, getCall: get, codeIdx: codeIdx, decIdx: decIdx}
}

// c17PresenceFallback: K2 / K11 for an accessor of the form `if !h(K, &m) { return default }; return m`: on the false
// outcome of the presence helper the accessor returns nothing derived from the decode target; every return reachable
// without that outcome derives from it.
func c17PresenceFallback(c *Ctx, a *accInfo) {
	r, sx := c.R, c.Sx()
	f := a.fn
	name := shortName(f)
	var falseE []Edge
	for _, b := range f.Blocks {
		iff := ifOf(b)
		if iff == nil {
			continue
		}
		inner, same := unwrapBool(iff.Cond)
		if inner != ssa.Value(a.pres) {
			continue
		}
		if same {
			falseE = append(falseE, Edge{b, b.Succs[1]})
		} else {
			falseE = append(falseE, Edge{b, b.Succs[0]})
		}
	}
	if len(falseE) == 0 {
		r.Violation("C17-K2", name+": the presence result of "+shortName(a.pres.Call.StaticCallee())+" is tested", c.P.ipos(a.pres), "the accessor does not branch on whether the option was present and well-formed: a default-initialised or partially decoded value is returned as decoded")
		return
	}
	for _, ret := range returnsOf(f) {
		if len(ret.Results) == 0 {
			continue
		}
		onFalse := mustPassEdges(f, ret.Block(), falseE...)
		derived := !fallbackValueOK(ret.Results[0], a.target)
		switch {
		case onFalse:
			r.Check(!derived, "C17-K2", name+": absent or malformed option yields the documented default", c.P.ipos(ret), "value returned on the not-present outcome does not derive from the decode target", "returns "+sx.Of(ret.Results[0]).String())
		case derived:
			r.OK("C17-K11", name+": a present, well-formed value is reported (not the default)", c.P.ipos(ret), "success-path return derives from the decode target", "")
		default:
			r.Violation("C17-K11", name+": a present, well-formed value is reported (not the default)", c.P.ipos(ret),
				"this return is reachable although the option is present and decoded without error, and what it yields ("+sx.Of(ret.Results[0]).String()+") does not derive from the decoded value")
		}
	}
}
