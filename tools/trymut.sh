#!/bin/sh
# usage: trymut.sh <patch.diff> <Cxx...>   applies patch to /repo, runs checks, reverts.
p="$(realpath "$1")"; shift
cd /repo || exit 2
git apply "$p" || { echo "PATCH DOES NOT APPLY: $p"; exit 3; }
cd /verif
for id in "$@"; do
  out=$(bin/dhcpverif check "$id" 2>&1); rc=$?
  echo "== $id rc=$rc"; echo "$out" | grep -A3 "^VIOLATION" | grep -v "^--" | cut -c1-300 | head -${TRYMUT_LINES:-12}
  echo "$out" | tail -1
done
git -C /repo checkout -- . 
