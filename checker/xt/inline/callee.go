// Copyright 2023 The Go Authors. All rights reserved.
// Use of this source code is governed by a BSD-style
// license that can be found in the LICENSE file.

package inline

// This file defines the analysis of the callee function.

import (
	"bytes"
	"encoding/gob"
	"fmt"
	"go/ast"
	"go/parser"
	"go/token"
	"go/types"
	"strings"

	"golang.org/x/tools/go/types/typeutil"
	"dhcpverif/xt/typeparams"
	"dhcpverif/xt/typesinternal"
)

// A Callee holds information about an inlinable function. Gob-serializable.
type Callee struct {
	impl gobCallee
}

func (callee *Callee) String() string { return callee.impl.Name }

type gobCallee struct {
	Content []byte // file content, compacted to a single func decl

	// results of type analysis (does not reach go/types data structures)
	PkgPath          string                 // package path of declaring package
	Name             string                 // user-friendly name for error messages
	Unexported       []string               // names of free objects that are unexported
	FreeRefs         []freeRef              // locations of references to free objects
	FreeObjs         []object               // descriptions of free objects
	ValidForCallStmt bool                   // function body is "return expr" where expr is f() or <-ch
	NumResults       int                    // number of results (according to type, not ast.FieldList)
	Params           []*paramInfo           // information about parameters (incl. receiver)
	Results          []*paramInfo           // information about result variables
	Effects          []int                  // order in which parameters are evaluated (see calleefx)
	HasDefer         bool                   // uses defer
	HasBareReturn    bool                   // uses bare return in non-void function
	Returns          [][]returnOperandFlags // metadata about result expressions for each return
	Labels           []string               // names of all control labels
	Falcon           falconResult           // falcon constraint system
}

// returnOperandFlags records metadata about a single result expression in a return
// statement.
type returnOperandFlags int

const (
	nonTrivialResult returnOperandFlags = 1 << iota // return operand has non-trivial conversion to result type
	untypedNilResult                                // return operand is nil literal
)

// A freeRef records a reference to a free object. Gob-serializable.
// (This means free relative to the FuncDecl as a whole, i.e. excluding parameters.)
type freeRef struct {
	Offset int // byte offset of the reference relative to the FuncDecl
	Object int // index into Callee.freeObjs
}

// An object abstracts a free types.Object referenced by the callee. Gob-serializable.
type object struct {
	Name    string // Object.Name()
	Kind    string // one of {var,func,const,type,pkgname,nil,builtin}
	PkgPath string // path of object's package (or imported package if kind="pkgname")
	PkgName string // name of object's package (or imported package if kind="pkgname")
	// TODO(rfindley): should we also track LocalPkgName here? Do we want to
	// preserve the local package name?
	ValidPos bool      // Object.Pos().IsValid()
	Shadow   shadowMap // shadowing info for the object's refs
}

// AnalyzeCallee analyzes a function that is a candidate for inlining
// and returns a Callee that describes it. The Callee object, which is
// serializable, can be passed to one or more subsequent calls to
// Inline, each with a different Caller.
//
// This design allows separate analysis of callers and callees in the
// golang.org/x/tools/go/analysis framework: the inlining information
// about a callee can be recorded as a "fact".
//
// The content should be the actual input to the compiler, not the
// apparent source file according to any //line directives that
// may be present within it.
func AnalyzeCallee(logf func(string, ...any), fset *token.FileSet, pkg *types.Package, info *types.Info, decl *ast.FuncDecl, content []byte) (*Callee, error) {
	checkInfoFields(info)

	// The client is expected to have determined that the callee
	// is a function with a declaration (not a built-in or var).
	fn := info.Defs[decl.Name].(*types.Func)
	sig := fn.Type().(*types.Signature)

	logf("analyzeCallee %v @ %v", fn, fset.PositionFor(decl.Pos(), false))

	// Create user-friendly name ("pkg.Func" or "(pkg.T).Method")
	var name string
	if sig.Recv() == nil {
		name = fmt.Sprintf("%s.%s", fn.Pkg().Name(), fn.Name())
	} else {
		name = fmt.Sprintf("(%s).%s", types.TypeString(sig.Recv().Type(), (*types.Package).Name), fn.Name())
	}

	if decl.Body == nil {
		return nil, fmt.Errorf("cannot inline function %s as it has no body", name)
	}

	// TODO(adonovan): support inlining of instantiated generic
	// functions by replacing each occurrence of a type parameter
	// T by its instantiating type argument (e.g. int). We'll need
	// to wrap the instantiating type in parens when it's not an
	// ident or qualified ident to prevent "if x == struct{}"
	// parsing ambiguity, or "T(x)" where T = "*int" or "func()"
	// from misparsing.
	if funcHasTypeParams(decl) {
		return nil, fmt.Errorf("cannot inline generic function %s: type parameters are not yet supported", name)
	}

	// Record the location of all free references in the FuncDecl.
	// (Parameters are not free by this definition.)
	var (
		fieldObjs    = fieldObjs(sig)
		freeObjIndex = make(map[types.Object]int)
		freeObjs     []object
		freeRefs     []freeRef // free refs that may need renaming
		unexported   []string  // free refs to unexported objects, for later error checks
	)
	var f func(n ast.Node) bool
	visit := func(n ast.Node) { ast.Inspect(n, f) }
	var stack []ast.Node
	stack = append(stack, decl.Type) // for scope of function itself
	f = func(n ast.Node) bool {
		if n != nil {
			stack = append(stack, n) // push
		} else {
			stack = stack[:len(stack)-1] // pop
		}
		switch n := n.(type) {
		case *ast.SelectorExpr:
			// Check selections of free fields/methods.
			if sel, ok := info.Selections[n]; ok &&
				!within(sel.Obj().Pos(), decl) &&
				!n.Sel.IsExported() {
				sym := fmt.Sprintf("(%s).%s", info.TypeOf(n.X), n.Sel.Name)
				unexported = append(unexported, sym)
			}

			// Don't recur into SelectorExpr.Sel.
			visit(n.X)
			return false

		case *ast.CompositeLit:
			// Check for struct literals that refer to unexported fields,
			// whether keyed or unkeyed. (Logic assumes well-typedness.)
			litType := typeparams.Deref(info.TypeOf(n))
			if s, ok := typeparams.CoreType(litType).(*types.Struct); ok {
				if n.Type != nil {
					visit(n.Type)
				}
				for i, elt := range n.Elts {
					var field *types.Var
					var value ast.Expr
					if kv, ok := elt.(*ast.KeyValueExpr); ok {
						field = info.Uses[kv.Key.(*ast.Ident)].(*types.Var)
						value = kv.Value
					} else {
						field = s.Field(i)
						value = elt
					}
					if !within(field.Pos(), decl) && !field.Exported() {
						sym := fmt.Sprintf("(%s).%s", litType, field.Name())
						unexported = append(unexported, sym)
					}

					// Don't recur into KeyValueExpr.Key.
					visit(value)
				}
				return false
			}

		case *ast.Ident:
			if obj, ok := info.Uses[n]; ok {
				// Methods and fields are handled by SelectorExpr and CompositeLit.
				if isField(obj) || isMethod(obj) {
					panic(obj)
				}
				// Inv: id is a lexical reference.

				// A reference to an unexported package-level declaration
				// cannot be inlined into another package.
				if !n.IsExported() &&
					obj.Pkg() != nil && obj.Parent() == obj.Pkg().Scope() {
					unexported = append(unexported, n.Name)
				}

				// Record free reference (incl. self-reference).
				if obj == fn || !within(obj.Pos(), decl) {
					objidx, ok := freeObjIndex[obj]
					if !ok {
						objidx = len(freeObjIndex)
						var pkgPath, pkgName string
						if pn, ok := obj.(*types.PkgName); ok {
							pkgPath = pn.Imported().Path()
							pkgName = pn.Imported().Name()
						} else if obj.Pkg() != nil {
							pkgPath = obj.Pkg().Path()
							pkgName = obj.Pkg().Name()
						}
						freeObjs = append(freeObjs, object{
							Name:     obj.Name(),
							Kind:     objectKind(obj),
							PkgName:  pkgName,
							PkgPath:  pkgPath,
							ValidPos: obj.Pos().IsValid(),
						})
						freeObjIndex[obj] = objidx
					}

					freeObjs[objidx].Shadow = freeObjs[objidx].Shadow.add(info, fieldObjs, obj.Name(), stack)

					freeRefs = append(freeRefs, freeRef{
						Offset: int(n.Pos() - decl.Pos()),
						Object: objidx,
					})
				}
			}
		}
		return true
	}
	visit(decl)

	// Analyze callee body for "return expr" form,
	// where expr is f() or <-ch. These forms are
	// safe to inline as a standalone statement.
	validForCallStmt := false
	if len(decl.Body.List) != 1 {
		// not just a return statement
	} else if ret, ok := decl.Body.List[0].(*ast.ReturnStmt); ok && len(ret.Results) == 1 {
		validForCallStmt = func() bool {
			switch expr := ast.Unparen(ret.Results[0]).(type) {
			case *ast.CallExpr: // f(x)
				callee := typeutil.Callee(info, expr)
				if callee == nil {
					return false // conversion T(x)
				}

				// The only non-void built-in functions that may be
				// called as a statement are copy and recover
				// (though arguably a call to recover should never
				// be inlined as that changes its behavior).
				if builtin, ok := callee.(*types.Builtin); ok {
					return builtin.Name() == "copy" ||
						builtin.Name() == "recover"
				}

				return true // ordinary call f()

			case *ast.UnaryExpr: // <-x
				return expr.Op == token.ARROW // channel receive <-ch
			}

			// No other expressions are valid statements.
			return false
		}()
	}

	// Record information about control flow in the callee
	// (but not any nested functions).
	var (
		hasDefer      = false
		hasBareReturn = false
		returnInfo    [][]returnOperandFlags
		labels        []string
	)
	ast.Inspect(decl.Body, func(n ast.Node) bool {
		switch n := n.(type) {
		case *ast.FuncLit:
			return false // prune traversal
		case *ast.DeferStmt:
			hasDefer = true
		case *ast.LabeledStmt:
			labels = append(labels, n.Label.Name)
		case *ast.ReturnStmt:

			// Are implicit assignment conversions
			// to result variables all trivial?
			var resultInfo []returnOperandFlags
			if len(n.Results) > 0 {
				argInfo := func(i int) (ast.Expr, types.Type) {
					expr := n.Results[i]
					return expr, info.TypeOf(expr)
				}
				if len(n.Results) == 1 && sig.Results().Len() > 1 {
					// Spread return: return f() where f.Results > 1.
					tuple := info.TypeOf(n.Results[0]).(*types.Tuple)
					argInfo = func(i int) (ast.Expr, types.Type) {
						return nil, tuple.At(i).Type()
					}
				}
				for i := 0; i < sig.Results().Len(); i++ {
					expr, typ := argInfo(i)
					var flags returnOperandFlags
					if typ == types.Typ[types.UntypedNil] { // untyped nil is preserved by go/types
						flags |= untypedNilResult
					}
					if !trivialConversion(info.Types[expr].Value, typ, sig.Results().At(i).Type()) {
						flags |= nonTrivialResult
					}
					resultInfo = append(resultInfo, flags)
				}
			} else if sig.Results().Len() > 0 {
				hasBareReturn = true
			}
			returnInfo = append(returnInfo, resultInfo)
		}
		return true
	})

	// Reject attempts to inline cgo-generated functions.
	for _, obj := range freeObjs {
		// There are others (iconst fconst sconst fpvar macro)
		// but this is probably sufficient.
		if strings.HasPrefix(obj.Name, "_Cfunc_") ||
			strings.HasPrefix(obj.Name, "_Ctype_") ||
			strings.HasPrefix(obj.Name, "_Cvar_") {
			return nil, fmt.Errorf("cannot inline cgo-generated functions")
		}
	}

	// Compact content to just the FuncDecl.
	//
	// As a space optimization, we don't retain the complete
	// callee file content; all we need is "package _; func f() { ... }".
	// This reduces the size of analysis facts.
	//
	// Offsets in the callee information are "relocatable"
	// since they are all relative to the FuncDecl.

	content = append([]byte("package _\n"),
		content[offsetOf(fset, decl.Pos()):offsetOf(fset, decl.End())]...)
	// Sanity check: re-parse the compacted content.
	if _, _, err := parseCompact(content); err != nil {
		return nil, err
	}

	params, results, effects, falcon := analyzeParams(logf, fset, info, decl)
	return &Callee{gobCallee{
		Content:          content,
		PkgPath:          pkg.Path(),
		Name:             name,
		Unexported:       unexported,
		FreeObjs:         freeObjs,
		FreeRefs:         freeRefs,
		ValidForCallStmt: validForCallStmt,
		NumResults:       sig.Results().Len(),
		Params:           params,
		Results:          results,
		Effects:          effects,
		HasDefer:         hasDefer,
		HasBareReturn:    hasBareReturn,
		Returns:          returnInfo,
		Labels:           labels,
		Falcon:           falcon,
	}}, nil
}

// parseCompact parses a Go source file of the form "package _\n func f() { ... }"
// and returns the sole function declaration.
func parseCompact(content []byte) (*token.FileSet, *ast.FuncDecl, error) {
	fset := token.NewFileSet()
	const mode = parser.ParseComments | parser.SkipObjectResolution | parser.AllErrors
	f, err := parser.ParseFile(fset, "callee.go", content, mode)
	if err != nil {
		return nil, nil, fmt.Errorf("internal error: cannot compact file: %v", err)
	}
	return fset, f.Decls[0].(*ast.FuncDecl), nil
}

// A paramInfo records information about a callee receiver, parameter, or result variable.
type paramInfo struct {
	Name        string    // parameter name (may be blank, or even "")
	Index       int       // index within signature
	IsResult    bool      // false for receiver or parameter, true for result variable
	IsInterface bool      // parameter has a (non-type parameter) interface type
	Assigned    bool      // parameter appears on left side of an assignment statement
	Escapes     bool      // parameter has its address taken
	Refs        []refInfo // information about references to parameter within body
	Shadow      shadowMap // shadowing info for the above refs; see [shadowMap]
	FalconType  string    // name of this parameter's type (if basic) in the falcon system
}

type refInfo struct {
	Offset           int  // FuncDecl-relative byte offset of parameter ref within body
	Assignable       bool // ref appears in context of assignment to known type
	IfaceAssignment  bool // ref is being assigned to an interface
	AffectsInference bool // ref type may affect type inference
	// IsSelectionOperand indicates whether the parameter reference is the
	// operand of a selection (param.f). If so, and param's argument is itself
	// a receiver parameter (a common case), we don't need to desugar (&v or *ptr)
	// the selection: if param.Method is a valid selection, then so is param.fieldOrMethod.
	IsSelectionOperand bool
}

// analyzeParams computes information about parameters of function fn,
// including a simple "address taken" escape analysis.
//
// It returns two new arrays, one of the receiver and parameters, and
// the other of the result variables of function fn.
//
// The input must be well-typed.
func analyzeParams(logf func(string, ...any), fset *token.FileSet, info *types.Info, decl *ast.FuncDecl) (params, results []*paramInfo, effects []int, _ falconResult) {
	fnobj, ok := info.Defs[decl.Name]
	if !ok {
		panic(fmt.Sprintf("%s: no func object for %q",
			fset.PositionFor(decl.Name.Pos(), false), decl.Name)) // ill-typed?
	}
	sig := fnobj.Type().(*types.Signature)

	paramInfos := make(map[*types.Var]*paramInfo)
	{
		newParamInfo := func(param *types.Var, isResult bool) *paramInfo {
			info := &paramInfo{
				Name:        param.Name(),
				IsResult:    isResult,
				Index:       len(paramInfos),
				IsInterface: isNonTypeParamInterface(param.Type()),
			}
			paramInfos[param] = info
			return info
		}
		if sig.Recv() != nil {
			params = append(params, newParamInfo(sig.Recv(), false))
		}
		for i := 0; i < sig.Params().Len(); i++ {
			params = append(params, newParamInfo(sig.Params().At(i), false))
		}
		for i := 0; i < sig.Results().Len(); i++ {
			results = append(results, newParamInfo(sig.Results().At(i), true))
		}
	}

	// Search function body for operations &x, x.f(), and x = y
	// where x is a parameter, and record it.
	escape(info, decl, func(v *types.Var, escapes bool) {
		if info := paramInfos[v]; info != nil {
			if escapes {
				info.Escapes = true
			} else {
				info.Assigned = true
			}
		}
	})

	// Record locations of all references to parameters.
	// And record the set of intervening definitions for each parameter.
	//
	// TODO(adonovan): combine this traversal with the one that computes
	// FreeRefs. The tricky part is that calleefx needs this one first.
	fieldObjs := fieldObjs(sig)
	var stack []ast.Node
	stack = append(stack, decl.Type) // for scope of function itself
	ast.Inspect(decl.Body, func(n ast.Node) bool {
		if n != nil {
			stack = append(stack, n) // push
		} else {
			stack = stack[:len(stack)-1] // pop
		}

		if id, ok := n.(*ast.Ident); ok {
			if v, ok := info.Uses[id].(*types.Var); ok {
				if pinfo, ok := paramInfos[v]; ok {
					// Record ref information, and any intervening (shadowing) names.
					//
					// If the parameter v has an interface type, and the reference id
					// appears in a context where assignability rules apply, there may be
					// an implicit interface-to-interface widening. In that case it is
					// not necessary to insert an explicit conversion from the argument
					// to the parameter's type.
					//
					// Contrapositively, if param is not an interface type, then the
					// assignment may lose type information, for example in the case that
					// the substituted expression is an untyped constant or unnamed type.
					assignable, ifaceAssign, affectsInference := analyzeAssignment(info, stack)
					ref := refInfo{
						Offset:             int(n.Pos() - decl.Pos()),
						Assignable:         assignable,
						IfaceAssignment:    ifaceAssign,
						AffectsInference:   affectsInference,
						IsSelectionOperand: isSelectionOperand(stack),
					}
					pinfo.Refs = append(pinfo.Refs, ref)
					pinfo.Shadow = pinfo.Shadow.add(info, fieldObjs, pinfo.Name, stack)
				}
			}
		}
		return true
	})

	// Compute subset and order of parameters that are strictly evaluated.
	// (Depends on Refs computed above.)
	effects = calleefx(info, decl.Body, paramInfos)
	logf("effects list = %v", effects)

	falcon := falcon(logf, fset, paramInfos, info, decl)

	return params, results, effects, falcon
}

// -- callee helpers --

// analyzeAssignment looks at the the given stack, and analyzes certain
// attributes of the innermost expression.
//
// In all cases we 'fail closed' when we cannot detect (or for simplicity
// choose not to detect) the condition in question, meaning we err on the side
// of the more restrictive rule. This is noted for each result below.
//
//   - assignable reports whether the expression is used in a position where
//     assignability rules apply, such as in an actual assignment, as call
//     argument, or in a send to a channel. Defaults to 'false'. If assignable
//     is false, the other two results are irrelevant.
//   - ifaceAssign reports whether that assignment is to an interface type.
//     This is important as we want to preserve the concrete type in that
//     assignment. Defaults to 'true'. Notably, if the assigned type is a type
//     parameter, we assume that it could have interface type.
//   - affectsInference is (somewhat vaguely) defined as whether or not the
//     type of the operand may affect the type of the surrounding syntax,
//     through type inference. It is infeasible to completely reverse engineer
//     type inference, so we over approximate: if the expression is an argument
//     to a call to a generic function (but not method!) that uses type
//     parameters, assume that unification of that argument may affect the
//     inferred types.
func analyzeAssignment(info *types.Info, stack []ast.Node) (assignable, ifaceAssign, affectsInference bool) {
	remaining, parent, expr := exprContext(stack)
	if parent == nil {
		return false, false, false
	}

	// TODO(golang/go#70638): simplify when types.Info records implicit conversions.

	// Types do not need to match for assignment to a variable.
	if assign, ok := parent.(*ast.AssignStmt); ok {
		for i, v := range assign.Rhs {
			if v == expr {
				if i >= len(assign.Lhs) {
					return false, false, false // ill typed
				}
				// Check to see if the assignment is to an interface type.
				if i < len(assign.Lhs) {
					// TODO: We could handle spread calls here, but in current usage expr
					// is an ident.
					if id, _ := assign.Lhs[i].(*ast.Ident); id != nil && info.Defs[id] != nil {
						// Types must match for a defining identifier in a short variable
						// declaration.
						return false, false, false
					}
					// In all other cases, types should be known.
					typ := info.TypeOf(assign.Lhs[i])
					return true, typ == nil || types.IsInterface(typ), false
				}
				// Default:
				return assign.Tok == token.ASSIGN, true, false
			}
		}
	}

	// Types do not need to match for an initializer with known type.
	if spec, ok := parent.(*ast.ValueSpec); ok && spec.Type != nil {
		for _, v := range spec.Values {
			if v == expr {
				typ := info.TypeOf(spec.Type)
				return true, typ == nil || types.IsInterface(typ), false
			}
		}
	}

	// Types do not need to match for index expresions.
	if ix, ok := parent.(*ast.IndexExpr); ok {
		if ix.Index == expr {
			typ := info.TypeOf(ix.X)
			if typ == nil {
				return true, true, false
			}
			m, _ := typeparams.CoreType(typ).(*types.Map)
			return true, m == nil || types.IsInterface(m.Key()), false
		}
	}

	// Types do not need to match for composite literal keys, values, or
	// fields.
	if kv, ok := parent.(*ast.KeyValueExpr); ok {
		var under types.Type
		if len(remaining) > 0 {
			if complit, ok := remaining[len(remaining)-1].(*ast.CompositeLit); ok {
				if typ := info.TypeOf(complit); typ != nil {
					// Unpointer to allow for pointers to slices or arrays, which are
					// permitted as the types of nested composite literals without a type
					// name.
					under = typesinternal.Unpointer(typeparams.CoreType(typ))
				}
			}
		}
		if kv.Key == expr { // M{expr: ...}: assign to map key
			m, _ := under.(*types.Map)
			return true, m == nil || types.IsInterface(m.Key()), false
		}
		if kv.Value == expr {
			switch under := under.(type) {
			case interface{ Elem() types.Type }: // T{...: expr}: assign to map/array/slice element
				return true, types.IsInterface(under.Elem()), false
			case *types.Struct: // Struct{k: expr}
				if id, _ := kv.Key.(*ast.Ident); id != nil {
					for fi := 0; fi < under.NumFields(); fi++ {
						field := under.Field(fi)
						if info.Uses[id] == field {
							return true, types.IsInterface(field.Type()), false
						}
					}
				}
			default:
				return true, true, false
			}
		}
	}
	if lit, ok := parent.(*ast.CompositeLit); ok {
		for i, v := range lit.Elts {
			if v == expr {
				typ := info.TypeOf(lit)
				if typ == nil {
					return true, true, false
				}
				// As in the KeyValueExpr case above, unpointer to handle pointers to
				// array/slice literals.
				under := typesinternal.Unpointer(typeparams.CoreType(typ))
				switch under := under.(type) {
				case interface{ Elem() types.Type }: // T{expr}: assign to map/array/slice element
					return true, types.IsInterface(under.Elem()), false
				case *types.Struct: // Struct{expr}: assign to unkeyed struct field
					if i < under.NumFields() {
						return true, types.IsInterface(under.Field(i).Type()), false
					}
				}
				return true, true, false
			}
		}
	}

	// Types do not need to match for values sent to a channel.
	if send, ok := parent.(*ast.SendStmt); ok {
		if send.Value == expr {
			typ := info.TypeOf(send.Chan)
			if typ == nil {
				return true, true, false
			}
			ch, _ := typeparams.CoreType(typ).(*types.Chan)
			return true, ch == nil || types.IsInterface(ch.Elem()), false
		}
	}

	// Types do not need to match for an argument to a call, unless the
	// corresponding parameter has type parameters, as in that case the
	// argument type may affect inference.
	if call, ok := parent.(*ast.CallExpr); ok {
		if _, ok := isConversion(info, call); ok {
			return false, false, false // redundant conversions are handled at the call site
		}
		// Ordinary call. Could be a call of a func, builtin, or function value.
		for i, arg := range call.Args {
			if arg == expr {
				typ := info.TypeOf(call.Fun)
				if typ == nil {
					return true, true, false
				}
				sig, _ := typeparams.CoreType(typ).(*types.Signature)
				if sig != nil {
					// Find the relevant parameter type, accounting for variadics.
					paramType := paramTypeAtIndex(sig, call, i)
					ifaceAssign := paramType == nil || types.IsInterface(paramType)
					affectsInference := false
					if fn := typeutil.StaticCallee(info, call); fn != nil {
						if sig2 := fn.Type().(*types.Signature); sig2.Recv() == nil {
							originParamType := paramTypeAtIndex(sig2, call, i)
							affectsInference = originParamType == nil || new(typeparams.Free).Has(originParamType)
						}
					}
					return true, ifaceAssign, affectsInference
				}
			}
		}
	}

	return false, false, false
}

// paramTypeAtIndex returns the effective parameter type at the given argument
// index in call, if valid.
func paramTypeAtIndex(sig *types.Signature, call *ast.CallExpr, index int) types.Type {
	if plen := sig.Params().Len(); sig.Variadic() && index >= plen-1 && !call.Ellipsis.IsValid() {
		if s, ok := sig.Params().At(plen - 1).Type().(*types.Slice); ok {
			return s.Elem()
		}
	} else if index < plen {
		return sig.Params().At(index).Type()
	}
	return nil // ill typed
}

// exprContext returns the innermost parent->child expression nodes for the
// given outer-to-inner stack, after stripping parentheses, along with the
// remaining stack up to the parent node.
//
// If no such context exists, returns (nil, nil).
func exprContext(stack []ast.Node) (remaining []ast.Node, parent ast.Node, expr ast.Expr) {
	expr, _ = stack[len(stack)-1].(ast.Expr)
	if expr == nil {
		return nil, nil, nil
	}
	i := len(stack) - 2
	for ; i >= 0; i-- {
		if pexpr, ok := stack[i].(*ast.ParenExpr); ok {
			expr = pexpr
		} else {
			parent = stack[i]
			break
		}
	}
	if parent == nil {
		return nil, nil, nil
	}
	// inv: i is the index of parent in the stack.
	return stack[:i], parent, expr
}

// isSelectionOperand reports whether the innermost node of stack is operand
// (x) of a selection x.f.
func isSelectionOperand(stack []ast.Node) bool {
	_, parent, expr := exprContext(stack)
	if parent == nil {
		return false
	}
	sel, ok := parent.(*ast.SelectorExpr)
	return ok && sel.X == expr
}

// A shadowMap records information about shadowing at any of the parameter's
// references within the callee decl.
//
// For each name shadowed at a reference to the parameter within the callee
// body, shadow map records the 1-based index of the callee decl parameter
// causing the shadowing, or -1, if the shadowing is not due to a callee decl.
// A value of zero (or missing) indicates no shadowing. By convention,
// self-shadowing is excluded from the map.
//
// For example, in the following callee
//
//	func f(a, b int) int {
//		c := 2 + b
//		return a + c
//	}
//
// the shadow map of a is {b: 2, c: -1}, because b is shadowed by the 2nd
// parameter. The shadow map of b is {a: 1}, because c is not shadowed at the
// use of b.
type shadowMap map[string]int

// add returns the [shadowMap] augmented by the set of names
// locally shadowed at the location of the reference in the callee
// (identified by the stack). The name of the reference itself is
// excluded.
//
// These shadowed names may not be used in a replacement expression
// for the reference.
func (s shadowMap) add(info *types.Info, paramIndexes map[types.Object]int, exclude string, stack []ast.Node) shadowMap {
	for _, n := range stack {
		if scope := scopeFor(info, n); scope != nil {
			for _, name := range scope.Names() {
				if name != exclude {
					if s == nil {
						s = make(shadowMap)
					}
					obj := scope.Lookup(name)
					if idx, ok := paramIndexes[obj]; ok {
						s[name] = idx + 1
					} else {
						s[name] = -1
					}
				}
			}
		}
	}
	return s
}

// fieldObjs returns a map of each types.Object defined by the given signature
// to its index in the parameter list. Parameters with missing or blank name
// are skipped.
func fieldObjs(sig *types.Signature) map[types.Object]int {
	m := make(map[types.Object]int)
	for i := range sig.Params().Len() {
		if p := sig.Params().At(i); p.Name() != "" && p.Name() != "_" {
			m[p] = i
		}
	}
	return m
}

func isField(obj types.Object) bool {
	if v, ok := obj.(*types.Var); ok && v.IsField() {
		return true
	}
	return false
}

func isMethod(obj types.Object) bool {
	if f, ok := obj.(*types.Func); ok && f.Type().(*types.Signature).Recv() != nil {
		return true
	}
	return false
}

// -- serialization --

var (
	_ gob.GobEncoder = (*Callee)(nil)
	_ gob.GobDecoder = (*Callee)(nil)
)

func (callee *Callee) GobEncode() ([]byte, error) {
	var out bytes.Buffer
	if err := gob.NewEncoder(&out).Encode(callee.impl); err != nil {
		return nil, err
	}
	return out.Bytes(), nil
}

func (callee *Callee) GobDecode(data []byte) error {
	return gob.NewDecoder(bytes.NewReader(data)).Decode(&callee.impl)
}
