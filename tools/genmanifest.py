#!/usr/bin/env python3
"""Regenerates /verif/MANIFEST.json from the table below and validates it.
Claimed properties are those with an entry in CLAIMED; every other property of
properties.jsonl is listed under not_applicable with its reason."""
import json, os, sys

ROOT = os.path.dirname(os.path.dirname(os.path.abspath(__file__)))

TB = ("Trusted: go/types, go/ssa and VTA of golang.org/x/tools v0.29.0; the Go toolchain; the hand-written uio.Lexer and "
      "stdlib models in checker/models.go; the spec tables under /verif/spec (my reading of the RFCs). "
      "The analyser itself is unverified. Recognised idioms are enumerated in DESIGN.md; a construct outside them fails as UNDECIDED.")

# id -> (technique, level text, level_note extra, design_ref)
CLAIMED = {
 "C14": ("CFG must-pass-through rules + value provenance (symx) on the SSA of the serve loops; heap-effect summary of the decoder",
         "Decides the structure of both serve loops on all paths: the loop is left only on the ReadFrom-error edge; the decode-error edge "
         "returns to the read without spawning; every decode-success path spawns exactly one handler with (s.conn, peer', message of this "
         "iteration); the read buffer is allocated per iteration, the decoder gets exactly rbuf[:n] and does not retain it; v4 peer rewrite "
         "condition and value; Close deferred and closing the conn. Does not decide socket behaviour, handler concurrency or histories: "
         "a per-iteration structural necessary condition, hence level 'other'.",
         "Frozen exception: server4 skips a peer that is not *net.UDPAddr.", "§5 C14"),
}

CLAIMED["C08"] = ("heap-effect (points-to/retention) summaries over SSA, context-sensitive on function-valued arguments (engine E3)",
         "For every decoder of dhcpv4/dhcpv6/iana/rfc1035label (selected by signature: takes []byte or *uio.Lexer, returns error) the analysis shows that no alias "
         "of the input can stay reachable from the receiver, another parameter, a result or a global, on any path of the whole call-graph closure; and that the three "
         "message-level ToBytes results are memory allocated during the call. This is a sound over-approximation of the whole aliasing clause (modulo the trusted models), "
         "filed under 'other' because the analyser is unverified. The observable consequences in the statement follow from the absence of aliasing.",
         "FromBytesWithParser with a caller-supplied parser and vendParseOption are judged through their in-repo callers only.", "§5 C08, §4 E3")
CLAIMED["C20"] = ("heap-effect (mutation) summaries over SSA with type-tagged write events (engine E3) + call-graph scan for clock/random sources",
         "For every exported method of the codec packages outside the mutator table (FromBytes*, Unmarshal, Add*, Del*, Update*, Set*, Remove*) and for the read-only helper "
         "functions (builders from a packet, decapsulation, ExtractMAC, ztp/netboot extractors) the analysis shows that no instruction in the call-graph closure writes memory "
         "reachable from the receiver / inputs (pre-state) or a global, and that the closure consults no clock or random source. Sound over-approximation of the clause "
         "'reading never changes the value'; equality of repeated results follows from purity + determinism. Level 'other': analyser unverified.",
         "Caller-supplied function values (custom modifiers/humanizers) are not judged; OptionHumanizer (a printing strategy) is outside the type set.", "§5 C20, §4 E3")

CLIENT_NOTE = "Anchors (constructor, receive loop, send, cancel closure, try closure, retry driver, Close) are resolved by role from the SSA; unresolved anchors fail as UNDECIDED. Schedules, time and PacketConn behaviour are not decided."
CLAIMED["C10"] = ("CFG must-pass-through + value provenance on the SSA of receive loop / send / SendAndRead; must/may-hold lock dataflow for pendingMu; field-write confinement scan; E3 for buffer aliasing",
         "Decides per-step necessary conditions of correct routing for both clients on all paths: routing key and delivered value, the filters that must dominate delivery, registration "
         "(check and store in one critical section, store before transmit, collision refused), the matcher guarding the returned packet, guarded-by discipline of the pending map, "
         "confinement of Client fields, one receive goroutine, per-datagram buffers. Does not decide linearizability over schedules; hence 'other'.", CLIENT_NOTE, "§5 C10")
CLAIMED["C11"] = ("CFG dominance / must-pass-through rules on wait select, cancel closure, Close and receive loop; cycle membership of the deadline-creating call; lock dataflow for blocking operations",
         "Decides the structural conditions under which every call completes: the four select cases and what each returns, one deadline per try (not re-armed in the wait loop), cancel deferred / called "
         "on the write-error path, close(done) before Lock and on every path, entry deleted on every path, no blocking operation under the lock except the delivery select, Close's CAS/close/Wait order, "
         "wg pairing, loop exit on read error. Wall-clock bounds and scheduling are not decided; hence 'other'.", CLIENT_NOTE, "§5 C11")
CLAIMED["C12"] = ("shape rules on the retry driver's loop (phi of the timeout, loop condition, result kinds), value provenance of the WriteTo arguments, use-classification of the message between tries",
         "Decides that the retry driver runs i=0.. while i<retry or retry<0, starts at c.timeout and exactly doubles after and only after the internal deadline error, that only a try's own deadline "
         "produces that error, that each try transmits once msg.ToBytes() to dest on the client's conn, that the message is only read between tries, and that the internal error is mapped to ErrNoResponse. "
         "Actual instants are not decided; hence 'other'.", CLIENT_NOTE, "§5 C12")

CLAIMED["C03"] = ("panic-obligation enumeration over the SSA of the decode/read-only call-graph closure; discharge by the Go compiler's prove pass (check_bce diagnostics), dominating-guard rules, parser/accessor tables, nil rules; ledger with machine-checked guard facts; loop and recursion audit",
         "Every panic-capable instruction (index, slice, single-value type assertion, explicit panic, integer division, negative make/Lexer/Repeat size, nil-map store, dereference of a maybe-nil call result, "
         "pointer field a decoder may leave nil) in the closure of all decode entry points, all exported read-only methods/helpers and the raw-frame reader is enumerated on the current tree and must be closed by a "
         "mechanical rule or by a ledger entry (spec/ledger.json) whose guard facts are re-checked on every run; every loop must be a range/Lexer-progress/counter loop or ledgered; recursion cycles must belong to the frozen families. "
         "Decides the enumerated panic classes on all paths, not the absence of every crash (see DESIGN §5 C03 'does not decide'); hence 'other'.",
         "Ledger entries marked 'assumption' carry a reason but no machine-checked fact; they are counted in the evidence.", "§5 C03, §4 E4/E7")
CLAIMED["C18"] = ("panic obligations of the reader (as C03) + CFG guard rules and value provenance on ReadFrom; constant-offset store extraction of the IPv4/UDP encoders compared with an RFC 791/768 table; call-order rule for the checksum fields",
         "Reader: frame-size fact (isValid gets the byte count under the Lexer), isValid's guard set, every rejecting guard skips the frame, delivery requires each guard, payload length derives from the IP total length, source address provenance. "
         "Writer: offset/width/value of every header store against the RFC layout, getter/setter offset agreement, field values of udp4pkt (20+8+len, 17, 8+len, ports/addresses), header/payload order, checksum fields written last from the complemented sum. "
         "Does NOT decide that the checksum arithmetic verifies under RFC 1071 (runtime arithmetic) nor arrival-order claims; hence 'other'.", "", "§5 C18")

E2NOTE = "spec/layouts.json: width skeletons written by hand from the cited RFC sections, field/transform strings reviewed once against the code; a codec idiom outside the recognised ones fails as UNDECIDED."
CLAIMED["C01"] = ("wire-schema extraction (abstract execution of encoder/decoder over the uio.Lexer ADT on SSA) compared with a reviewed RFC 2131 layout; value-identity rules on the RFC 3396 chunk loop; provenance rule on reassembly",
         "Decides header symmetry and RFC layout of (*DHCPv4).ToBytes / FromBytes slot by slot (width, field, transform), name capacity and NUL cut, the option instance split (same n as length byte, slice and remainder; n = len clamped to 255; zero-length and every non-Pad/End key written) and append-ordered reassembly. "
         "Does not decide equality of values for all inputs; hence 'other'.", E2NOTE, "§5 C01")
CLAIMED["C02"] = ("table cross-check of parser switches against constant Code()/DUIDType() methods (SSA); wire-schema extraction of all DHCPv6 encoders/decoders compared with reviewed RFC rows",
         "Decides that parser tables and Code() agree (both directions), and that every DHCPv6 encoder and decoder (34 option types, 5 DUID kinds, message and relay headers, option framing, shared Duration codec) has exactly the reviewed slot sequence of its RFC layout, "
         "including transforms (seconds, 10 ms units, prefix length) and the conditions under which zeros are written. Does not decide value equality beyond slot/field/transform agreement; hence 'other'.", E2NOTE, "§5 C02")
CLAIMED["C06"] = ("guard rule on net.CIDRMask call sites in the decode closure (dominating range check), wire-schema agreement shared with C01/C02",
         "Decides necessary conditions of the decode→encode→decode fixpoint: every decode transform that is not injective on the wire domain is range-guarded (CIDRMask), and (through the C01/C02/C17 schema rows, re-evaluated here) every decoder slot lands in a field the encoder writes back with the inverse transform, "
         "and the v4 option encoder writes every stored key including empty values. The fixpoint itself for all inputs is not decided; hence 'other'.", E2NOTE, "§5 C06")
CLAIMED["C09"] = ("amplification-site audit on SSA loops of the decode closure (cursor monotonicity, typestate flag of cursor jumps, capped accumulators), loop-placement rules for remainder copies and accumulator-sized allocations, repeated-ToBytes rule in encoders",
         "Decides four structural necessary conditions of bounded decoding cost (see DESIGN §5 C09). The numeric bound itself (bytes allocated per input byte) is a runtime quantity and is NOT decided; this is stated in the evidence. Hence 'other'.", "", "§5 C09")
CLAIMED["C17"] = ("table cross-check accessor ↔ constructor ↔ printer (SSA), error-edge provenance rule for fallbacks, tiling rule for value decoders, wire-schema rows of the DHCPv4 value types",
         "Decides: for each option code the typed accessor, the Opt* constructor and the printer use the same value type (listed exceptions 54, 77); on the absent and on the decode-error edge the accessor returns a value not derived from the decode target; each value type's FromBytes consumes its input exactly; codec symmetry and RFC layout of each value type. "
         "Does not decide value semantics beyond slot/field/transform agreement; hence 'other'.", E2NOTE, "§5 C17")

CLAIMED["C04"] = ("dominance / must-pass-through rules and value provenance on dhcpv4.FromBytes and the option loop (SSA), schema row of the header decoder",
         "Decides, in the direction 'accepts no more than': success requires the Lexer error test after the last header read, the magic cookie and a nil option-parse error; pad skips without a length, End leaves the loop before a length is read, an overrunning value is an error, success after the loop requires End (checkEnd=true is passed), hlen is clamped to 16, nothing is read after End, instances concatenate in order. "
         "Does not decide that every well-formed packet is accepted; hence 'other'.", "", "§5 C04")
CLAIMED["C05"] = ("return-classification rule (exact tiling) over every DHCPv6/iana/label decoder, shape rules on the TLV loop and header decoders, error-use rule over the decode closure, schema rows of the decoders",
         "Decides, in the direction 'accepts no more than': every decoder returns nil only via FinError over its whole input, an exact length guard, wholesale use, or delegation of the whole input/remainder to a decoder judged by the same rule with its error propagated; the TLV loop shape; header completeness guards and the 12/13 dispatch; no decode error is dropped; decoded field values per the reviewed RFC rows. "
         "Does not decide the converse; hence 'other'.", E2NOTE, "§5 C05")
CLAIMED["C19"] = ("CFG/value rules on (*Labels).ToBytes and same(), shape rules on the label encoder and decoder (length prefix, terminator, pointer test, 14-bit offset)",
         "Decides: the original bytes are re-emitted only if re-parsing failed or an exact element-wise comparison of names holds, otherwise the current names are encoded; encoder and decoder agree on the length-prefix/terminator framing; the compression-pointer offset is the widened 14-bit big-endian value; decoding starts at offset 0. "
         "Does NOT decide which names RFC 1035/4704 assign to an arbitrary byte string; hence 'other'.", "", "§5 C19")

E6NOTE = "spec/builders.json: required/forbidden items written by hand from RFC 2131 Table 5/§4.3–4.4, RFC 8415 §18–19 and the builders' doc comments; the full effect lists were reviewed once against the code."
CLAIMED["C07"] = ("map-range audit and sort-dominance rule on the SSA of the DHCPv4 encoders/printers; shape rules on sortedKeys (exclusion of 82/255, post-sort appends, no element moves); guard sets of Marshal's writes; End/pad ordering and pad-count provenance in ToBytes",
         "Decides determinism and canonical layout structurally: every range over a map only collects keys that are sorted before use; 82 and 255 are kept out of the sorted set and appended afterwards in that order; no instance for Pad/End; exactly one End on every path, before the padding; pad count 300−Len() under Len()<300 with filler 0; instance split (C01-K3). "
         "Does not decide that an independent decoder recovers the values; hence 'other'.", "", "§5 C07")
CLAIMED["C13"] = ("recipe/effect extraction (E6) of the exchange steps and builders compared with reviewed rows; provenance rules for ErrNak, Lease and the Release destination; matcher-shape rules",
         "Decides per-step rules of the lease exchange: matchers handed to SendAndRead, NAK handling, provenance of Lease fields, renew/release recipes and destinations, v6 solicit/rapid-commit/request steps and the REQUEST builder's guards and fresh transaction id. "
         "Does not decide behaviour over arbitrary server histories; hence 'other'.", E6NOTE, "§5 C13")
CLAIMED["C15"] = ("recipe extraction of the default-modifier lists and effect extraction of each modifier closure (E6) compared with reviewed rows; order rules on PrependModifiers/newDHCPv4/New; E3 for input purity",
         "Decides: defaults precede and caller modifiers follow (prevail); the six builders' recipes contain the RFC-required items and none of the forbidden ones and equal the reviewed lists; each modifier's field effects; builders do not write the packet they answer. "
         "Does not decide interplay with arbitrary user modifiers; hence 'other'.", E6NOTE, "§5 C15")
CLAIMED["C16"] = ("effect extraction (E6) of the DHCPv6 builders and relay (de)capsulation compared with reviewed rows; index/provenance rules on NewRelayReplFromRelayForw; accepted-type set of NewReplyFromMessage; schema rows of the relay options",
         "Decides: relay encapsulation fields and hop count rule, decapsulation loops, the relay-reply rebuild (parallel collections, one index from last to first, argument order, echoed options, innermost reply), type/option guards and transaction-id provenance of the advertise/request/reply builders. "
         "Does not decide value equality after a wire trip beyond the schema rows; hence 'other'.", E6NOTE, "§5 C16")


# second-round clauses (DESIGN §15): appended to the level text of the properties that gained them
ADDENDA = {
 "C01": " Also: every key of the option map reaches the collecting append of the key sorter (only 82/255 bypass it). Also (round 5): every Lexer of the package is built big-endian and no little-/native-endian codec is referenced (byte-order rule).",
 "C02": " Also: the numeric value of every wire-enum constant (option codes, message types, DUID types, status codes) equals the IANA-assigned number in spec/constants.json. Also (round 5): label sets inside decoded options re-emit their original bytes only under an exact name comparison (shared C19-K1); byte-order rule; the explicit rejections of every DHCPv6 decoder equal the reviewed set spec/rejects.json (E8: an added value test that turns a well-formed input into an error, or a vanished one, is reported). Also (round 6): every return of the domain-name encoder ends with the zero byte (shared C19-K2); E8 also compares the conditional field stores of the decoders (a field left nil or replaced under a new condition).",
 "C03": " Also: a maybe-nil pointer result is not boxed into an interface without a nil test (typed nil); no encoder serialises the same sub-value or collection twice on a path (shared C09-K4). Bounds obligations the compiler leaves open go through a relational bounds prover (D10) before the ledger; ledger entries may require slots of the current wire schema (schema_slots).",
 "C04": " Also: the option Lexer is built over the parameter itself (nothing trimmed beforehand); every consumed instance reaches the store. Also: DHCPv4 wire-enum constants equal spec/constants.json. Also (round 5): the server-name and boot-file fields are cut at the first NUL and converted without re-encoding (shared C01-K2); byte-order rule; the explicit rejections of FromBytes and the option loop equal spec/rejects.json (E8).",
 "C05": " Also: wire-enum constants equal spec/constants.json; the 255-octet cap of the label decoder is a test on the length of the name being assembled. Also (round 5): byte-order rule; the explicit rejections (errors created, not handed on, with their guarding condition in additive normal form) of every decoder equal the reviewed set spec/rejects.json (E8) — both directions of 'accepted exactly when'. Also (round 6): E8 conditional-store census — receiver-field stores of decoders under a value test equal the reviewed set.",
 "C06": " Also: length-field narrowing (C06-K5): every uintN(len(x)) written as a length is the length of raw field bytes or of a nested encoding whose encoder closure does not pad. One site violates it on the pinned tree and is a KNOWN FINDING (F9: (dhcpv6.Options).ToBytes, demonstrated in findings/F9-C06-length-overflow, not repairable without an API change). Also (round 5): byte-order rule over dhcpv4, dhcpv6, iana, rfc1035label.",
 "C07": " Also: options 82 and 255 are re-appended exactly when the key is present (presence flag or comma-ok), not when the value is non-nil. Also: DHCPv4 wire-enum constants equal spec/constants.json. Also (round 5): byte-order rule (the header encoder's Lexer is big-endian).",
 "C08": " Also: no decoder makes memory reachable from a package-level variable part of the value it produces (decoded messages share nothing with each other).",
 "C09": " Also: no allocation sized by an unvalidated wire length (K5); no decoder formats a byte slice derived from its input (K6); no accumulator grown through a capacity-clipped alias of itself. The repeated-ToBytes rule is interprocedural (helpers of the module are expanded at their call sites). Also (round 5, K7): no function on a recursion cycle of the decode closure hands the same input bytes to that cycle twice along one path (decoding stays linear in the nesting depth). Also (round 6): K8 no decoder on a recursion cycle stores a copy of the bytes it hands to the recursion; K3 follows calls made in decode loops (callee reallocating, sized by its length, the collection it extends).",
 "C10": " Also: slice-typed Client state is never returned, stored or sent (accessors hand out copies); cancel pairing on every exit of send/SendAndRead and cancel-by-identity (shared with C11; defect F10 repaired in 9686be8); the receive buffer is a constant >= 1500 bytes. Filter rules are evaluated on the split graph, so nested ifs, && chains and switch cases are judged alike. Also (round 5): slice-typed Client state is never written through after construction (copy destination, element store, append onto a re-slice); on the split graph every way from the read back to the next read that avoids the delivery takes one of the stated rejection edges (no filter beyond decode error, opcode, hardware address, unknown transaction id), also through a delivery helper.",
 "C11": " Also: cancel removes only the entry this call registered (identity test; defect F10 found by this rule and repaired in 9686be8); the internal deadline sentinel is a distinct errors.New value. Also: only the internal per-try deadline sentinel leads to another try; every other result of a try, including the context's error, is returned at once (shared with C12). Also (round 6): the lock discipline C10-K5 (pendingMu released at every return of every function that takes it, deferred unlocks modelled) is evaluated under C11 as well.",
 "C12": " Also: the internal deadline sentinel is a distinct errors.New value; in the constructor no field the retry driver reads is written after an option ran (defaults first). Also: no path from the deadline edge to the next try avoids the doubling; every in-repo Logger.PrintMessage implementation writes nothing reachable from the message it prints (E3). Also (round 5, K5): registration precedes transmission and the receive loop is left only on a read error (shared C10-K1/K2/K3): a reply arriving during any try reaches the waiting call.",
 "C13": " Also: the receive loops deliver messages that do not alias the per-datagram read buffer and decoded option values are exactly the bytes consumed for their code (shared with C10/C01); message-type constants equal spec/constants.json. Also: E6 recipes are compared with parameters named by position (a rename is invisible, exchanging two parameters is not).",
 "C14": " Also (K7): the handler field Serve reads is set only to the caller's handler or to a wrapper that calls it exactly once with its own arguments on every path. Also: the decoder called per datagram returns a value sharing no memory with package-level variables. Also (round 5, K8): the panic obligations (E4, including results used or handed on although the error beside them was dropped, followed into callees that dereference them) of the serve methods and of what they call synchronously outside the decoder closure are closed; b[:n] with n returned by ReadFrom into b is discharged by the io contract (D12). Also (round 6): Close performs no blocking operation (WaitGroup.Wait, channel receive, blocking select, sleep) — Serve returns through its deferred Close.",
 "C15": " Also: decoded option values are append(previous value, consumed chunk) — a zero-length option stays nil, which 'copied when present' depends on; message-type constants equal spec/constants.json. Also (round 6, K8): the option store the modifiers end in (Options.Update via UpdateOption) writes its entry on every path, keyed by the option's code with the option's encoding.",
 "C16": " Also: DHCPv6 message-type constants equal spec/constants.json. Also (round 5, K8): the header decoders of messages and relay messages reject exactly the reviewed conditions (E8), so a relay chain of any depth survives the wire. Also: E6 recipes are compared with parameters named by position.",
 "C17": " Also: an accessor's result derives only from its option lookup, constants and non-receiver parameters (K6); the shared string helper returns string(raw) unchanged. Also: string accessors return the decoded string or strings.TrimRight(s, NUL) of it; DHCPv4 option-code constants equal spec/constants.json. Also (round 5): every exported Opt* constructor stores the caller's argument itself (converted, wrapped in a composite literal, or handed whole to a reviewed helper), not a value assembled by method calls on a local (K9); byte-order rule; explicit rejections of the value decoders equal spec/rejects.json (K8).",
 "C18": " Also (K9): header slices obtained from the Lexer stay valid (buffer capacity equals the bytes written, or every use precedes later growth). Also (K8): no 16-bit addition or subtraction has a checksum-derived operand outside the two summation routines (a plain add drops the end-around carry). isValid and the reader guards are judged on the split graph. Also (round 5): byte-order rule for the raw-frame reader and writer.",
 "C20": " Also: the clients' in-repo Logger.PrintMessage implementations write nothing reachable from the message they print.",
 "C19": " Also (round 6): every return of the name encoder is the terminating append(…, 0) or the literal {0}.",
}

# round 7 (DESIGN §21)
ADDENDA7 = {
 "C01": " Also (round 7): a name field without a zero octet decodes to the whole field (the constant fallback of the NUL cut equals the array length).",
 "C02": " Also (round 7, K10): container contracts of dhcpv6.Options (Get collects exactly the matching elements in order, GetOne returns the first match, Add appends at the end, Del keeps exactly the others, Update replaces the first match in place else appends; Message/RelayMessage wrappers delegate with their own argument) and of OptionCodes (Contains, Add appends a new code at the end); K11 platform-width rule (no shift or conversion in int/uint whose result depends on int being 64 bits).",
 "C03": " Also (round 7): no String/Error/GoString method hands its own receiver to fmt under %v %s %q %x %X (unbounded recursion, K2); K3 platform-width rule over all library packages (sizes and shifts computed in int do not depend on its width).",
 "C04": " Also (round 7): a name field without a zero octet decodes to the whole field (shared C01-K2).",
 "C07": " Also (round 7, K9): platform-width rule — no left shift or narrowing-capable conversion in int/uint/uintptr in the codec packages whose result differs where int is 32 bits wide.",
 "C09": " Also (round 7, K9): no decode loop rebuilds a loop-carried error or string from itself through a call (error chains re-formatted per rejected option).",
 "C10": " Also (round 7): census of close() in the client packages — a transaction channel is closed only by the owner's cancel and on the `<-p.done` case of the delivering select (also through an unexported helper called only from there).",
 "C12": " Also (round 7): K6 every WriteTo error makes send fail (all returns on the error edge carry a non-nil error); the value the try returns on its deadline is the one the retry driver tests for (the sentinel itself when the test is ==; errors.Is is recognised as a test and then sees through %w).",
 "C13": " Also (round 7): the retry driver / transmission / deadline-mapping rules of C12 (K1, K2, K4, K6) are evaluated under C13 (an unanswered message is sent again); container contracts of both option containers (K8) and the broadcast-flag contracts (K9).",
 "C15": " Also (round 7): K9 container contracts of dhcpv4.Options (Get, Has, Del, GetOneOption, DeleteOption) and OptionCodeList (Has, Add); K10 IsBroadcast/IsUnicast test exactly bit 0x8000 of Flags, SetBroadcast/SetUnicast change exactly that bit.",
 "C16": " Also (round 7, K9): container contracts of dhcpv6.Options and the Message/RelayMessage option wrappers (the relay helpers look options up per level through them).",
 "C17": " Also (round 7, K10): container contracts of dhcpv4.Options and OptionCodeList.",
 "C18": " Also (round 7, K11): platform-width rule over nclient4.",
 "C19": " Also (round 7, K5): (*Labels).FromBytes keeps a private copy of its whole input as the original bytes on every accepting path; the decoders' rejections and conditional field stores equal the reviewed set (E8).",
 "C20": " Also (round 7): a shortened re-slice x[:k] handed to a function that appends onto that parameter (interprocedural, through φs, re-slices and helper calls) is a write to x's elements.",
}

# rounds 8-9 and the natural negative corpora (DESIGN §22-§25)
ADDENDA8 = {
 "C01": " Also (rounds 8-9): K7 the message the decoder is building is never handed to another function before it is returned (late rewriting of decoded fields, e.g. Option Overload applied by a method, is reported). String fields are recognised semantically: string(src[:i]) with i the index of the first zero octet of the same source, through helpers and builtin min.",
 "C02": " Also (round 8): the label-list encoder is the concatenation of the per-name encoder over one scan of its argument and returns that accumulator (no compression pointers in DHCPv6; shared C19-K2).",
 "C03": " Also (rounds 8-9): the cursor-jump rules of the label decoder (typestate flag, saved position ahead, accumulator cap; C09-K1) are evaluated under C03 for every loop of its closure with an instance floor; ledger assumptions for the netboot type assertions became machine-checked facts (rejects_present: the relay decoder still rejects non-relay types; key_pattern entries are keyed by function, not by spelling). The analyser's own abnormal termination is reported as a violation (check.sh fails closed).",
 "C04": " Also (round 9): K9 the packet FromBytes is building is never a call argument before it is returned; K10 no-retention (C08-K1) of the input by dhcpv4.FromBytes is evaluated under C04. 'End seen' is a provenance fact (a flag true only on paths through the code==255 edge), not a name.",
 "C05": " Also (round 9): K12 the message a top-level DHCPv6 decoder builds is never a call argument; K13 no-retention of the input by the three top-level DHCPv6 decoders.",
 "C06": " Also (round 8): K8 the stored option value is append(previous value, consumed chunk) with one store per instance (shared C01-K4): a first instance kept as a view of the packet would be overwritten by later fragments.",
 "C10": " Also (round 9): K2 the delivering select has exactly two cases (send to the entry's channel, receive on the entry's done); K8 close census.",
 "C11": " Also (round 9): K10 on the way of a call (SendAndRead, try, send, retry driver and their synchronous callees in the package) the only waiting operation is the wait select — no other channel operation, timer wait, sleep, WaitGroup/Cond wait.",
 "C12": " Also (round 8): K1 with the deadline-sentinel edge removed, the try is not reachable from itself — only the try's own deadline leads to another try (a Timeout()-based retry of context errors or a second doubling is reported).",
 "C14": " Also (rounds 8-9): K5 the rewritten broadcast peer is allocated on the serve loop's cycle (fresh per datagram), judged also inside an unexported helper; K9 no waiting operation (channel send/receive, blocking select, WaitGroup/Cond wait, sleep) on the serve loop's cycle in Serve or in what it calls synchronously there.",
 "C16": " Also (round 9): preconditions that apply only under a condition are part of a builder's recipe (`requires not(a && b)`, conjuncts sorted); a builder's error results carry their provenance (which callee's error, passed through or re-created).",
 "C17": " Also (round 9): K11 every return of an accessor or its helper that is reachable without the absent edge or the decode-error edge yields a value derived from the decode target (no value-dependent suppression). Accessor helpers are any function that looks up one option whose code is one of its parameters.",
 "C18": " Also: K3 the UDP port filter is decided as a truth table over its atoms (no port filter, source matches, destination matches …): the extracted predicate equals N or ((A or B) and C) on all 16 rows, however it is spelled.",
 "C19": " Also (round 8): K2 the per-name encoder is judged by role (one length octet per label equal to that label's length, then the label bytes, a terminating zero) in copy style or append style; the list encoder is one scan concatenating it; slices.Equal is the exact comparison of K1.",
 "C15": " Also (rounds 8-9): E6 treats a function that only hands its arguments to another module function as that call (delegation), drops zero stores into fresh objects, splits phi-valued stores into conditional effects and records error provenance, so equal behaviour spelled differently compares equal and a re-created error does not.",
 "C13": " Also (rounds 8-9): same E6 normal forms as C15 (delegation, conditional effects, error provenance: an error of RequestFromOffer/SendAndRead that is replaced rather than passed through is reported).",
}

# round 10 and the third natural corpus (DESIGN §26-§27)
ADDENDA10 = {
 "C02": " Also (round 10, K12): after its first read no decoder method hands what it decoded to a callee that sees none of the input and writes it (de-duplicating, sorting, trimming decoded lists).",
 "C03": " Also: the comparator handed to sort.Slice indexes the sorted slice with its own parameters (D14 sort contract, machine-checked); the ledger fact made_fields checks that every allocation of dhcpv4.DHCPv4 in the library makes its Options map.",
 "C05": " Also (round 10, K14): same decoder post-processing rule as C02-K12.",
 "C06": " Also (round 10): K9 decoder post-processing rule (shared C02-K12); K10 the messages the four top-level decoders return share no memory with the datagram (E3 retention), so a second encode cannot depend on the caller's buffer.",
 "C09": " Also (round 10): K5 counts (*strings.Builder).Grow, (*bytes.Buffer).Grow and slices.Grow as allocations sized by their argument.",
 "C16": " Also (round 10, K10): the DHCPv6 relay/reply helpers (New…From…, Decapsulate…, EncapsulateRelay, ExtractMAC, Get…, Is…) write no memory reachable from their arguments (E3).",
 "C17": " Also (round 10, K12): between the decode and its return an accessor performs no store, copy or writing callee rooted at the decode target (no value-dependent editing of the decoded value). Accessors through a presence helper (lookup by code, decode into the decoder handed in, report success) are judged through it.",
 "C18": " Also (round 10, K12): the frame of the deprecated client4.MakeRawUDPPacket field by field (ports, length, checksum constant 0 or computed, ipv4.Header literal, header ++ UDP ++ payload), and fold completeness over nclient4 and client4: a value (x>>16)+(x&0xffff) is narrowed to 16 bits only after it is folded again (a single fold drops its own carry).",
 "C19": " Also (round 10): K6 every library caller of the label decoder hands the decoded set on as decoded; K7 the wire-schema rows of the three DHCPv6 options that carry names.",
 "C20": " Also (round 10): an append whose first operand reaches it through the φ of an accumulating loop from a shortened re-slice x[:k] (the in-place filter idiom) is a write to x's elements.",
 "C10": " Also: when the check-and-register step of send lives in an unexported helper, K3 is evaluated on that shape (helper: keyed lookup/store, store only when absent, one critical section, lock released on every exit, boolean verdict separating the colliding from the registering returns; send: id passed is msg.TransactionID, refusal neither transmits nor returns nil, the call dominates WriteTo).",
 "C13": " Also: IsMessageType is decided by truth table when written loop-free (type == t || slices.Contains(tt, type)); E6 inlines result-returning helpers of the package (one caller, one success return), so a shared request/ack step compares equal to the inlined form.",
}

# rounds 11-12 and corpus S (DESIGN §28, §30)
ADDENDA12 = {
 "C03": " Also (round 11): a pointer a decoder stores from a (value, error) call establishes non-nil only where that error is known nil (the return hands the error on, or lies behind its nil edge) — a decoder that reports success on some value of the error accepts the nil pointer that came with it. D15: strings.Split yields at least 1 + Count(prefix, sep) elements under a HasPrefix guard.",
 "C06": " Also (round 12, K11): the message a top-level decoder is building is never a call argument before it is returned (shared C01-K7).",
 "C09": " Also (round 12): K4 counts as a serialisation of an element every method invoked on it whose module implementation serialises part of its receiver (size queries that call ToBytes).",
 "C11": " Also (round 12): under pendingMu the only select allowed is THE delivery select (send to the looked-up entry's channel, receive on that entry's done); the receive-loop rules C10-K1/K2/K7 are evaluated under C11 ('returns with the response as soon as an acceptable one arrives').",
 "C12": " Also: the retry loop's condition is decided by truth table — from the loop head the try is entered exactly when i < retry or retry < 0, in any spelling.",
 "C16": " Also (round 12, K11): the messages the three DHCPv6 decoders return share no memory with the datagram (E3 retention).",
 "C18": " Also (round 12): every PacketConn.WriteTo in (*BroadcastRawUDPConn).WriteTo sends the frame of the reviewed builder udp4pkt(b, addr, boundAddr), and the header encoders ipv4.encode / udp.encode are called only by that builder (census): a second, pooled or in-place frame builder is reported. payloadLength may clamp to 0 only where the subtraction would wrap.",
 "C19": " Also: the list encoder's scan is the loop that calls the per-name encoder (a size-only pre-pass is not part of it); an empty result under len(arg) == 0 is the concatenation over no names.",
}

# rounds 13-14, corpora T/F and the normalisation pre-pass (DESIGN §31-§32)
ADDENDA14 = {
 "C01": " Also (round 13): an option instance exists from the moment its length octet is read: no path from that read to the next iteration of the option loop avoids the map store (a zero-length option still creates its key).",
 "C03": " Also (round 13): D7 needs nil-freedom as well as the dynamic type: a type assertion on GetOneOption's result is discharged only when, for every assignment of the function's nil tests with the operand nil, no CFG path reaches the assertion. The maybe-nil-local rule follows the value into module callees that dereference the parameter, including elements of a variadic parameter (round 14).",
 "C06": " Also (round 13, K12): the rejections and conditional field stores of the DHCPv6 option decoders equal the reviewed set (E8 census, shared C02/C05) — a decoder that drops a field for more inputs than before changes the re-encoded bytes.",
 "C14": " Also (round 13, K3): every datagram read reaches the decoder — no path from the read to the next read avoids the decode call, so which datagrams decode is the decoder's verdict alone.",
 "C17": " Also (round 13): the label decoder's state machine (C19-K3, compression-pointer mask and jump rules) is evaluated under C17 for DomainSearch(); the presence helper and its callers share one decoder.",
 "C18": " Also (round 13): fold completeness knows both fold forms — (x>>16)+(x&0xffff), and the end-around add uint16(x + x>>16), which is complete only when x is the sum of two zero-extended 16-bit values.",
 "C20": " Also (round 13): the key-order rules of C07 (sortedKeys: total order, no ties decided by map iteration) are evaluated under C20.",
}

# rounds 15-16, corpus U, second pre-pass strategy and feasible paths (DESIGN §33)
ADDENDA16 = {
 "C01": " Also (round 16): K2 reads string(φ[b, b[:i]]) — `if i := bytes.IndexByte(b, 0); i != -1 { b = b[:i] }; return string(b)` — as the cut at the first NUL or the whole field.",
 "C02": " Also (corpus U): E2 treats an unexported function without loops or calls whose every return is an object allocated in it as that allocation (newDUID(typ)); `if err := d.FromBytes(rest); err != nil { return d, err }; return d, nil` is the delegated return.",
 "C03": " Also (corpus U): a dereference guarded through a second variable (`if v != nil { u = v.f() }; if len(u) == 0 { return }; v.g()`) is discharged by the correlation of the two φs; the regexp contract D11 knows a submatch slice to be empty on a φ edge when its emptiness test lies on every path to that predecessor. Ledger entries of a reviewed function are inherited by a helper split out of it (unknown to the baseline, called only from it); the entries' machine-checked facts are evaluated where the construct now lives.",
 "C10": " Also (round 16): K7 accepts a receive buffer allocated once before the loop when the decoder keeps nothing of its input (E3), the slice handed to ReadFrom is the whole buffer (no narrowing φ) and the buffer is otherwise only decoded from, measured and copied from; K6 lets construction steps (unexported, never a value, called only from the constructor before the receive loop starts) write Client fields; K4 judges a (response, error) pair of φs edge by edge when the wait loop's results leave it through a join. Helpers with their own returns, loops or selects are merged into their callers before analysis (pre-pass, second strategy) and the must-pass queries run over feasible paths (cfgpath.go).",
 "C11": " Also (rounds 15-16): the try's deadline and the caller's context may share ONE case of the wait select, on a context derived with context.WithTimeout(ctx, timeout), when the case is decided by Err() of the caller's context (non-nil: that error; nil: the internal deadline error); a case that sets the results and leaves a merged loop is judged by the value it returns through the join (resultVia).",
 "C12": " Also (round 17): the lock discipline C10-K5 (pendingMu released on every exit of every function that takes it) is evaluated under C12 — a leaked lock stops every later transmission. Also (round 16): the retry driver may hand back the try's result as it is (`if err != errDeadlineExceeded { return err }` covers nil); the wait-select rules (a deadline case fed by the try's timeout, created once per try, never re-armed: C11-K1/K2) are evaluated under C12.",
 "C13": " Also (round 17): C10-K4 (SendAndRead hands back the packet received in its wait select, only under match == nil or match(packet)) and the wait-select rules C11-K1/K2 are evaluated under C13. Also: the flag contract accepts IsUnicast() = !IsBroadcast() when the sibling is the directly written test.",
 "C14": " Also (round 16): K4 accepts a hoisted read buffer under the conditions of C10-K7; the serve-loop rules (exits, every read reaches the decoder, no handler after a decode error, a handler after every success, handler arguments) run over feasible paths and resolve φs by the edges that can reach the use, so a read/decode step split into a helper returning (msg, peer, err) is judged like the inlined loop.",
 "C17": " Also: K1 reads the printer table from getOption or from an unexported function it calls for the decoder.",
 "C05": " Also (round 16): in the rejection census a counter that provably equals the joined length of the pieces collected so far (inductive invariant over the loop-header φs: (0, empty) | unchanged | (n + [len(parts)>0] + len(s), append(parts, s)); checker/accpair.go) is the length of the name under construction, so a 255-octet limit tested on it is the reviewed limit; a counter that is not reset with the list fails the invariant.",
 "C19": " Also (round 16): the name-length limit of the label decoder may be tested on a counter kept beside a list of collected labels when the accumulator-pair invariant holds (shared C05); strings.Join of collected pieces is their concatenation in the wire schema.",
}

NA_REASON = {}

def main():
    props = [json.loads(l) for l in open(os.path.join(ROOT, "properties.jsonl"))]
    checks = []
    na = []
    for p in props:
        pid = p["id"]
        if pid in CLAIMED:
            tech, text, note, ref = CLAIMED[pid]
            text = text + ADDENDA.get(pid, "") + ADDENDA7.get(pid, "") + ADDENDA8.get(pid, "") + ADDENDA10.get(pid, "") + ADDENDA12.get(pid, "") + ADDENDA14.get(pid, "") + ADDENDA16.get(pid, "")
            checks.append({
                "property_id": pid,
                "quick_cmd": f"./check.sh {pid} quick",
                "thorough_cmd": f"./check.sh {pid} thorough",
                "evidence_file": f"evidence/{pid}.json",
                "replay_cmd_template": f"./check.sh {pid} quick --explain-replay {{path}}",
                "engine": "dhcpverif",
                "level_claimed": {"category": "other", "text": text, "design_ref": ref},
                "level_note": (note + " " + TB).strip(),
                "technique": "static analysis: " + tech,
            })
        else:
            na.append({"property_id": pid, "reason": NA_REASON.get(pid, "not claimed yet: checker for this property is still being built (static-analysis plan in DESIGN.md §5)")})
    m = {
        "version": 1,
        "setup_cmd": "cd /verif/checker && GOFLAGS=-mod=mod GOPROXY=off GOSUMDB=off GOTOOLCHAIN=local GOWORK=off go build -o /verif/bin/dhcpverif .",
        "hooks": {
            "guard": "verif",
            "enable": "no hooks: the analyser reads /repo's sources; nothing is compiled into the library",
            "baseline_off_cmd": "cd /repo && GOFLAGS=-mod=mod GOPROXY=off GOSUMDB=off GOTOOLCHAIN=local go test -vet=off -count=1 ./...",
            "source_commits": [],
            "add_only": True,
        },
        "engines": [{
            "name": "dhcpverif", "path": "checker/",
            "serves_properties": sorted(CLAIMED),
            "kind_free_text": "repository-specific static analyser over go/packages + go/ssa + VTA call graph: CFG/dominance rules, value provenance, heap-effect summaries, wire-schema extraction, panic-obligation ledger",
        }],
        "checks": checks,
        "not_applicable": na,
        "notes": "All claims are at level 'other': each check decides named structural clauses (necessary conditions) of its property from the source, on all paths, and says which part of the behaviour it does not decide. Before analysis the working tree is normalised: calls of functions whose names are not in spec/functions.json (new helpers) are inlined with the vendored golang.org/x/tools source inliner (checker/xt, BSD licence; DESIGN §32); in the client and server packages helpers with their own returns, loops or selects are merged as a labelled block (checker/inlineret.go; DESIGN §33). Silence means 'equal to the reviewed structure up to the normal forms on file'; measured limits (medium-sized refactorings, full rewrites, new codecs) are in DESIGN §29, §32 and §33 (faithful twins of small commits: 19 of 40 silent). See DESIGN.md.",
    }
    out = os.path.join(ROOT, "MANIFEST.json")
    json.dump(m, open(out, "w"), indent=1)
    try:
        import jsonschema
        jsonschema.validate(m, json.load(open("/root/.vp/MANIFEST.schema.json")))
        print("MANIFEST.json valid;", len(checks), "claimed,", len(na), "not applicable")
    except ImportError:
        print("jsonschema not available; wrote MANIFEST.json unvalidated")

if __name__ == "__main__":
    main()
