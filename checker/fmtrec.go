package main

// fmt self-recursion (C03-K2, round 7): fmt calls the String/Error method of an operand for the verbs %v %s %q %x %X
// (and for Sprint/Sprintln/Print…). A String, Error or GoString method that hands its own receiver to fmt under one of
// these verbs calls itself without bound: printing such a value ends in a fatal stack overflow that no recover() can
// catch. go vet reports only part of these (it misses verbs with flags such as %#04x). Decided per fmt call site in
// every such method of the module: the operand is the receiver itself (same dynamic type, so the method set contains
// the very method being analysed) and the verb that consumes it is one of the five.

import (
	"fmt"
	"go/constant"
	"go/token"
	"go/types"
	"strings"

	"golang.org/x/tools/go/ssa"
)

var fmtFormatFuncs = map[string]int{ // name -> index of the format argument
	"Sprintf": 0, "Errorf": 0, "Printf": 0, "Fprintf": 1, "Appendf": 1,
}
var fmtPlainFuncs = map[string]int{ // name -> index of the first operand
	"Sprint": 0, "Sprintln": 0, "Print": 0, "Println": 0, "Fprint": 1, "Fprintln": 1, "Append": 1, "Appendln": 1,
}

// verbsOf: the verb consuming each successive operand of a constant format; ok=false when the format uses explicit
// argument indexes or `*` widths (then every operand is treated as printed with %v)
func verbsOf(format string) ([]byte, bool) {
	var out []byte
	for i := 0; i < len(format); i++ {
		if format[i] != '%' {
			continue
		}
		i++
		for i < len(format) && strings.IndexByte("+-# 0123456789.", format[i]) >= 0 {
			i++
		}
		if i >= len(format) {
			break
		}
		switch format[i] {
		case '%':
			continue
		case '[', '*':
			return nil, false
		}
		out = append(out, format[i])
	}
	return out, true
}

func fmtSelfRecursion(c *Ctx, rule string) {
	r := c.R
	nSites := 0
	for _, f := range c.P.ModuleFuncs() {
		if f.Signature.Recv() == nil || f.Parent() != nil {
			continue
		}
		switch f.Name() {
		case "String", "Error", "GoString":
		default:
			continue
		}
		recv := ssa.Value(f.Params[0])
		isSelf := func(v ssa.Value) bool {
			if mi, ok := v.(*ssa.MakeInterface); ok {
				v = mi.X
			}
			for i := 0; i < 3; i++ {
				if ct, ok := v.(*ssa.ChangeType); ok && types.Identical(ct.X.Type(), ct.Type()) {
					v = ct.X
					continue
				}
				break
			}
			derived := v == recv
			if u, ok := v.(*ssa.UnOp); ok && u.Op == token.MUL && u.X == recv {
				derived = true
			}
			if !derived {
				return false
			}
			// does the dynamic type's method set contain this very method?
			ms := c.P.SSA.MethodSets.MethodSet(v.Type())
			sel := ms.Lookup(f.Pkg.Pkg, f.Name())
			if sel == nil {
				return false
			}
			return c.P.SSA.MethodValue(sel) == f
		}
		ord := 0
		allInstrs(f, func(in ssa.Instruction) {
			cl, ok := in.(*ssa.Call)
			if !ok {
				return
			}
			callee := cl.Call.StaticCallee()
			if callee == nil || callee.Pkg == nil || callee.Pkg.Pkg.Path() != "fmt" {
				return
			}
			var verbs []byte
			known := false
			first := 0
			if fi, ok := fmtFormatFuncs[callee.Name()]; ok {
				first = fi + 1
				if k, isK := cl.Call.Args[fi].(*ssa.Const); isK && k.Value != nil && k.Value.Kind() == constant.String {
					verbs, known = verbsOf(constant.StringVal(k.Value))
				}
			} else if fi, ok := fmtPlainFuncs[callee.Name()]; ok {
				first = fi
			} else {
				return
			}
			if first >= len(cl.Call.Args) {
				return
			}
			nSites++
			// operands in order: the variadic array's stores by index
			sl, ok := cl.Call.Args[first].(*ssa.Slice)
			if !ok {
				return
			}
			al, ok := sl.X.(*ssa.Alloc)
			if !ok {
				return
			}
			for _, ref := range *al.Referrers() {
				ia, ok := ref.(*ssa.IndexAddr)
				if !ok {
					continue
				}
				idx, okI := intConst(ia.Index)
				if !okI {
					continue
				}
				for _, r2 := range *ia.Referrers() {
					st, ok := r2.(*ssa.Store)
					if !ok || st.Addr != ssa.Value(ia) || !isSelf(st.Val) {
						continue
					}
					verb := byte('v')
					if known {
						if int(idx) >= len(verbs) {
							continue // extra operand: printed as %!(EXTRA …) through the same path
						}
						verb = verbs[idx]
					}
					if strings.IndexByte("vsqxX", verb) >= 0 {
						ord++
						r.Violation(rule, fmt.Sprintf("%s: hands its own receiver to fmt.%s under %%%c #%d", shortName(f), callee.Name(), verb, ord), c.P.ipos(cl),
							"fmt calls this very method again for that verb: unbounded recursion, fatal stack overflow when the value is printed")
					}
				}
			}
		})
	}
	r.Count(rule+"-fmt-sites-in-stringers", nSites)
	r.OK(rule, "no String/Error/GoString method of the module prints its own receiver through itself", "-", "fmt call-site census", fmt.Sprintf("%d fmt calls inside such methods", nSites))
}
