#!/bin/bash
# Runs every check against every seeded change and every revert-of-fix mutant; prints which properties report a violation.
# Each patch is applied to /repo, analysed, and reverted (git checkout) immediately.
cd /verif
out=${1:-/verif/seeded/MATRIX.md}
mkdir -p /tmp/matrix-verif/spec; cp spec/*.json /tmp/matrix-verif/spec/; cp known_findings.json /tmp/matrix-verif/
echo "| change | intended property | properties whose check reports it | rules (first of each) |" > $out
echo "|---|---|---|---|" >> $out
for p in seeded/*/patch.diff mutants/*.patch; do
  name=$(basename $(dirname $p)); [ "$name" = "mutants" ] && name=$(basename $p .patch)
  intended=$(echo $name | cut -d- -f1)
  git -C /repo apply $(realpath $p) 2>/dev/null || { echo "| $name | $intended | PATCH DOES NOT APPLY | |" >> $out; continue; }
  res=$(bin/dhcpverif check all --verif /tmp/matrix-verif 2>&1)
  git -C /repo checkout -- . ; git -C /repo clean -fdq
  props=$(echo "$res" | grep "^VIOLATION" | sed 's/.*property=\(C[0-9]*\).*/\1/' | sort -u | tr '\n' ' ')
  rules=$(echo "$res" | grep -A1 "^VIOLATION" | grep "rule=" | sed 's/.*rule=\([A-Za-z0-9-]*\).*/\1/' | sort -u | tr '\n' ' ')
  echo "| $name | $intended | ${props:-NONE} | $rules |" >> $out
  echo "$name -> ${props:-NONE}"
done
