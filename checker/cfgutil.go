package main

// Control-flow helpers on go/ssa basic blocks: edge-avoiding reachability
// (must-pass-through), cycles, post-dominance, instruction ordering.

import (
	"go/token"
	"go/types"

	"golang.org/x/tools/go/ssa"
)

type Edge struct{ From, To *ssa.BasicBlock }

// reachFrom computes the set of blocks reachable from `from` (inclusive)
// without traversing removed edges or entering blocked blocks.
func reachFrom(from *ssa.BasicBlock, removed map[Edge]bool, blocked map[*ssa.BasicBlock]bool) map[*ssa.BasicBlock]bool {
	return reachFromPlain(from, removed, blocked)
}

// reachFeasible / reachFeasibleSuccs: the same questions over feasible paths only (cfgpath.go); used by the must-pass
// queries, not by the structural ones (cycles, loops)
func reachFeasible(from *ssa.BasicBlock, removed map[Edge]bool, blocked map[*ssa.BasicBlock]bool) map[*ssa.BasicBlock]bool {
	return reachPath(from, removed, blocked, false)
}

func reachFeasibleSuccs(from *ssa.BasicBlock, removed map[Edge]bool, blocked map[*ssa.BasicBlock]bool) map[*ssa.BasicBlock]bool {
	return reachPath(from, removed, blocked, true)
}

// reachFromPlain: reachFrom over every CFG edge (no feasibility pruning; cfgpath.go)
func reachFromPlain(from *ssa.BasicBlock, removed map[Edge]bool, blocked map[*ssa.BasicBlock]bool) map[*ssa.BasicBlock]bool {
	seen := map[*ssa.BasicBlock]bool{}
	if blocked[from] {
		return seen
	}
	stack := []*ssa.BasicBlock{from}
	seen[from] = true
	for len(stack) > 0 {
		b := stack[len(stack)-1]
		stack = stack[:len(stack)-1]
		for _, s := range b.Succs {
			if removed[Edge{b, s}] || blocked[s] || seen[s] {
				continue
			}
			seen[s] = true
			stack = append(stack, s)
		}
	}
	return seen
}

// reachFromSuccs: blocks reachable by at least one edge from b (b itself is
// included only if it lies on a cycle).
func reachFromSuccs(b *ssa.BasicBlock, removed map[Edge]bool, blocked map[*ssa.BasicBlock]bool) map[*ssa.BasicBlock]bool {
	return reachFromSuccsPlain(b, removed, blocked)
}

func reachFromSuccsPlain(b *ssa.BasicBlock, removed map[Edge]bool, blocked map[*ssa.BasicBlock]bool) map[*ssa.BasicBlock]bool {
	seen := map[*ssa.BasicBlock]bool{}
	var stack []*ssa.BasicBlock
	for _, s := range b.Succs {
		if removed[Edge{b, s}] || blocked[s] || seen[s] {
			continue
		}
		seen[s] = true
		stack = append(stack, s)
	}
	for len(stack) > 0 {
		x := stack[len(stack)-1]
		stack = stack[:len(stack)-1]
		for _, s := range x.Succs {
			if removed[Edge{x, s}] || blocked[s] || seen[s] {
				continue
			}
			seen[s] = true
			stack = append(stack, s)
		}
	}
	return seen
}

func inCycle(b *ssa.BasicBlock) bool { return reachFromSuccs(b, nil, nil)[b] }

// sameCycle: a and b lie on a common cycle.
func sameCycle(a, b *ssa.BasicBlock) bool {
	if a == b {
		return inCycle(a)
	}
	return reachFromSuccs(a, nil, nil)[b] && reachFromSuccs(b, nil, nil)[a]
}

// mustPassEdges: every path entry→target uses at least one of the edges.
func mustPassEdges(fn *ssa.Function, target *ssa.BasicBlock, edges ...Edge) bool {
	rm := map[Edge]bool{}
	for _, e := range edges {
		rm[e] = true
	}
	return !reachFeasible(fn.Blocks[0], rm, nil)[target]
}

// mustPassBlocks: every path from→target passes through one of the blocks
// (from and target themselves are not counted unless listed).
func mustPassBlocks(from, target *ssa.BasicBlock, via ...*ssa.BasicBlock) bool {
	bl := map[*ssa.BasicBlock]bool{}
	for _, b := range via {
		bl[b] = true
	}
	if bl[from] || bl[target] {
		return true
	}
	return !reachFeasible(from, nil, bl)[target]
}

// condEdge returns the If terminating block b and its true/false edges.
func ifOf(b *ssa.BasicBlock) *ssa.If {
	if len(b.Instrs) == 0 {
		return nil
	}
	i, _ := b.Instrs[len(b.Instrs)-1].(*ssa.If)
	return i
}

func instrIndex(in ssa.Instruction) int {
	for i, x := range in.Block().Instrs {
		if x == in {
			return i
		}
	}
	return -1
}

// instrDominates: a executes before b on every path to b.
func instrDominates(a, b ssa.Instruction) bool {
	if a.Block() == b.Block() {
		return instrIndex(a) < instrIndex(b)
	}
	return a.Block().Dominates(b.Block())
}

// exits: blocks ending in Return or Panic.
func returnBlocks(fn *ssa.Function) []*ssa.BasicBlock {
	var out []*ssa.BasicBlock
	for _, b := range fn.Blocks {
		if len(b.Instrs) == 0 {
			continue
		}
		// the recover block of a function with defers is entered only after a recovered panic
		if b == fn.Recover && len(b.Preds) == 0 {
			continue
		}
		if _, ok := b.Instrs[len(b.Instrs)-1].(*ssa.Return); ok {
			out = append(out, b)
		}
	}
	return out
}

func returnsOf(fn *ssa.Function) []*ssa.Return {
	var out []*ssa.Return
	for _, b := range returnBlocks(fn) {
		out = append(out, b.Instrs[len(b.Instrs)-1].(*ssa.Return))
	}
	return out
}

// everyPathFromHits: every path starting *after* instruction `from` and
// ending at a function exit (Return) or at `stop` blocks passes an
// instruction satisfying pred. Paths ending in panic are ignored.
func everyPathFromHits(from ssa.Instruction, pred func(ssa.Instruction) bool) bool {
	b := from.Block()
	idx := instrIndex(from)
	for _, in := range b.Instrs[idx+1:] {
		if pred(in) {
			return true
		}
	}
	// blocks containing a hit are barriers
	fn := b.Parent()
	hit := map[*ssa.BasicBlock]bool{}
	for _, bb := range fn.Blocks {
		for _, in := range bb.Instrs {
			if pred(in) {
				hit[bb] = true
				break
			}
		}
	}
	seen := reachFromSuccs(b, nil, hit)
	if _, ok := b.Instrs[len(b.Instrs)-1].(*ssa.Return); ok {
		return false
	}
	for bb := range seen {
		if _, ok := bb.Instrs[len(bb.Instrs)-1].(*ssa.Return); ok {
			return false
		}
	}
	return true
}

func allInstrs(fn *ssa.Function, f func(ssa.Instruction)) {
	for _, b := range fn.Blocks {
		for _, in := range b.Instrs {
			f(in)
		}
	}
}

// calls in fn (incl. go/defer) whose static callee satisfies pred
func callsTo(fn *ssa.Function, pred func(*ssa.CallCommon) bool) []ssa.CallInstruction {
	var out []ssa.CallInstruction
	allInstrs(fn, func(in ssa.Instruction) {
		if c, ok := in.(ssa.CallInstruction); ok && pred(c.Common()) {
			out = append(out, c)
		}
	})
	return out
}

// calleeName: "pkgpath.Func" / "(*pkgpath.T).M" / "invoke iface.M" form used
// for matching resolved callees (types, not text of the source).
func calleeName(c *ssa.CallCommon) string {
	if c.IsInvoke() {
		return "invoke " + types.TypeString(c.Value.Type(), nil) + "." + c.Method.Name()
	}
	if f := c.StaticCallee(); f != nil {
		return funcKey(f)
	}
	if b, ok := c.Value.(*ssa.Builtin); ok {
		return "builtin " + b.Name()
	}
	return "dynamic"
}

func isInvokeOf(c *ssa.CallCommon, ifacePkg, ifaceName, method string) bool {
	if !c.IsInvoke() || c.Method.Name() != method {
		return false
	}
	t := c.Value.Type()
	n, ok := t.(*types.Named)
	if !ok {
		return false
	}
	return n.Obj().Name() == ifaceName && n.Obj().Pkg() != nil && n.Obj().Pkg().Path() == ifacePkg
}

// isMethodCall: static call or invoke of method `name` whose receiver's named
// type is pkg.typ (pointer or value).
func isMethodCall(c *ssa.CallCommon, pkg, typ, name string) bool {
	if c.IsInvoke() {
		return isInvokeOf(c, pkg, typ, name)
	}
	f := c.StaticCallee()
	if f == nil || f.Name() != name {
		return false
	}
	n := recvNamed(f)
	return n != nil && n.Obj().Name() == typ && n.Obj().Pkg() != nil && n.Obj().Pkg().Path() == pkg
}

func isFuncCall(c *ssa.CallCommon, pkg, name string) bool {
	f := c.StaticCallee()
	if f == nil || f.Signature.Recv() != nil {
		return false
	}
	return f.Name() == name && pkgPathOf(f) == pkg
}

func isBuiltinCall(c *ssa.CallCommon, name string) bool {
	b, ok := c.Value.(*ssa.Builtin)
	return ok && b.Name() == name
}

func namedIs(t types.Type, pkg, name string) bool {
	if p, ok := t.(*types.Pointer); ok {
		t = p.Elem()
	}
	n, ok := t.(*types.Named)
	if !ok {
		if a, ok2 := t.(*types.Alias); ok2 {
			return namedIs(types.Unalias(a), pkg, name)
		}
		return false
	}
	return n.Obj().Name() == name && n.Obj().Pkg() != nil && n.Obj().Pkg().Path() == pkg
}

var _ = token.NoPos

// retResult: the i-th result of a return, looking through the result cells go/ssa spills results to in functions
// that defer (`*r = v; rundefers; t = *r; return t`): the value last stored to the cell in the return's own block
func retResult(ret *ssa.Return, i int) ssa.Value {
	v := ret.Results[i]
	ld, ok := v.(*ssa.UnOp)
	if !ok || ld.Op != token.MUL {
		return v
	}
	al, ok := ld.X.(*ssa.Alloc)
	if !ok {
		return v
	}
	// the last value stored into the cell before the load; a value that is itself a load of the cell (`err = err`
	// through a temporary, as go/ssa writes `x, err = a, b` for a named result) is chased to the store before it
	cur := ld
	for hop := 0; hop < 4; hop++ {
		var last ssa.Value
		for _, in := range ret.Block().Instrs {
			if in == ssa.Instruction(cur) {
				break
			}
			if st, ok := in.(*ssa.Store); ok && st.Addr == ssa.Value(al) {
				last = st.Val
			}
		}
		if last == nil {
			if hop == 0 {
				return v
			}
			return cur
		}
		l2, isLoad := last.(*ssa.UnOp)
		if isLoad && l2.Op == token.MUL && l2.X == ssa.Value(al) && l2.Block() == ret.Block() {
			cur = l2
			continue
		}
		return last
	}
	return v
}

// resultVia: control leaves block b and follows unconditional jumps to a return; the idx-th result of that return
// (idx < 0: the last), with the φs met on the way resolved by the edge taken. nil when the way forks before a return.
func resultVia(b *ssa.BasicBlock, idx int) (ssa.Value, *ssa.Return) {
	env := map[*ssa.Phi]ssa.Value{}
	resolve := func(v ssa.Value) ssa.Value {
		for i := 0; i < 8; i++ {
			ph, ok := v.(*ssa.Phi)
			if !ok {
				return v
			}
			nv, ok := env[ph]
			if !ok {
				return v
			}
			v = nv
		}
		return v
	}
	enter := func(cur, next *ssa.BasicBlock) *ssa.BasicBlock {
		pi := -1
		for i, p := range next.Preds {
			if p == cur {
				pi = i
			}
		}
		if pi < 0 {
			return nil
		}
		for _, in := range next.Instrs {
			ph, ok := in.(*ssa.Phi)
			if !ok {
				break
			}
			if pi < len(ph.Edges) {
				env[ph] = resolve(ph.Edges[pi])
			}
		}
		return next
	}
	cur := b
	for step := 0; step < 12 && cur != nil && len(cur.Instrs) > 0; step++ {
		switch last := cur.Instrs[len(cur.Instrs)-1].(type) {
		case *ssa.Return:
			if len(last.Results) == 0 {
				return nil, last
			}
			k := idx
			if k < 0 {
				k = len(last.Results) - 1
			}
			if k >= len(last.Results) {
				return nil, last
			}
			v := last.Results[k]
			if rr := retResult(last, k); rr != nil {
				v = rr
			}
			return resolve(v), last
		case *ssa.Jump:
			cur = enter(cur, cur.Succs[0])
		case *ssa.If:
			// a test of a carried result against nil, decided by the value carried on this way: the nil constant, or a value
			// that cannot be nil (resultNonNil)
			bo, ok := last.Cond.(*ssa.BinOp)
			if !ok || (bo.Op != token.EQL && bo.Op != token.NEQ) {
				return nil, nil
			}
			var x ssa.Value
			switch {
			case isNilConst(bo.Y):
				x = bo.X
			case isNilConst(bo.X):
				x = bo.Y
			default:
				return nil, nil
			}
			v := resolve(x)
			isNil := isNilConst(v)
			if !isNil && !resultNonNil(v, b) {
				return nil, nil
			}
			// successor 0 is taken when the condition is true
			if (bo.Op == token.EQL) == isNil {
				next := cur.Succs[0]
				cur = enter(cur, next)
			} else {
				next := cur.Succs[1]
				cur = enter(cur, next)
			}
		default:
			return nil, nil
		}
	}
	return nil, nil
}

// resultNonNil: a value set by a select case / exit block `from` that cannot be nil: an allocation or box, the load of a
// package-level error variable that only the package initialiser assigns (a sentinel made with errors.New), or
// ctx.Err() evaluated in the block that was entered because ctx.Done() fired (the documented contract of Context)
func resultNonNil(v ssa.Value, from *ssa.BasicBlock) bool {
	switch t := v.(type) {
	case *ssa.Alloc, *ssa.MakeInterface:
		return true
	case *ssa.UnOp:
		if g, ok := t.X.(*ssa.Global); ok && t.Op == token.MUL && isErrorType(t.Type()) {
			return globalAssignedOnlyByInit(g)
		}
	case *ssa.Call:
		if t.Call.IsInvoke() && t.Call.Method.Name() == "Err" && namedIs(t.Call.Value.Type(), "context", "Context") && t.Block() == from {
			return true
		}
		if f := t.Call.StaticCallee(); f != nil {
			k := funcKey(f)
			if k == "errors.New" || k == "fmt.Errorf" {
				return true
			}
		}
	case *ssa.Extract:
		// the packet received in this select
		if _, isSel := t.Tuple.(*ssa.Select); isSel {
			return false
		}
	}
	return false
}

var globalInitOnlyMemo = map[*ssa.Global]bool{}

func globalAssignedOnlyByInit(g *ssa.Global) bool {
	if v, ok := globalInitOnlyMemo[g]; ok {
		return v
	}
	res := true
	if g.Pkg == nil {
		res = false
	} else {
		for _, m := range g.Pkg.Members {
			fn, ok := m.(*ssa.Function)
			if !ok {
				continue
			}
			var walk func(f *ssa.Function)
			walk = func(f *ssa.Function) {
				if f.Name() == "init" && f.Parent() == nil {
					return
				}
				allInstrs(f, func(in ssa.Instruction) {
					for _, op := range in.Operands(nil) {
						if op != nil && *op == ssa.Value(g) {
							if ld, isLoad := in.(*ssa.UnOp); !isLoad || ld.Op != token.MUL {
								res = false
							}
						}
					}
				})
				for _, an := range f.AnonFuncs {
					walk(an)
				}
			}
			walk(fn)
		}
		// methods
		for _, m := range g.Pkg.Members {
			if tn, ok := m.(*ssa.Type); ok {
				_ = tn
			}
		}
	}
	globalInitOnlyMemo[g] = res
	return res
}
