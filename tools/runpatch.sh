#!/bin/bash
# usage: runpatch.sh <name> <patch> <outdir>   — analyse a scratch copy of /repo with the patch applied (all properties);
# writes <outdir>/<name>.txt; never touches /repo. Scratch copy under /tmp is removed afterwards.
name=$1; patch=$(realpath $2); out=$3
tmp=$(mktemp -d /tmp/runpatch.XXXXXX)
rsync -a --exclude .git /repo/ $tmp/repo/
S=${SNAP:-/verif}
mkdir -p $tmp/verif/spec; cp $S/spec/*.json $tmp/verif/spec/; cp $S/known_findings.json $tmp/verif/
if (cd $tmp/repo && patch -p1 -s < $patch) ; then
  (cd /verif && ${DHCPVERIF_BIN:-$S/bin/dhcpverif} check all --repo $tmp/repo --verif $tmp/verif > $out/$name.txt 2>&1)
  rc=$?
  # an analyser that terminates abnormally decides nothing: shown as an alarm of every property (C00 = all), never as silence
  if [ $rc -ne 0 ] && [ $rc -ne 1 ]; then echo "VIOLATION property=C00 ANALYSER-TERMINATED exit=$rc" >> $out/$name.txt; fi
else
  echo "PATCH DOES NOT APPLY" > $out/$name.txt
fi
rm -rf $tmp
