package main

func c06Schema(c *Ctx) {}
