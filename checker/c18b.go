package main

import (
	"fmt"
	"go/token"
	"go/types"
	"strings"

	"golang.org/x/tools/go/ssa"
)

const cl4 = modPath + "/dhcpv4/client4"

// c18Client4Frame: K12 — the frame of the deprecated client4.MakeRawUDPPacket, field by field: an 8-byte UDP header
// with source port, destination port, length 8+len(payload) at offsets 0, 2, 4 (big-endian) and a checksum at 6 that
// is the constant 0 ("no checksum", RFC 768) or a value subject to the fold rule below; the IPv4 header is built by
// x/net's ipv4.Header with Version 4, Len 20, TotalLen 20+8+len(payload), Protocol 17, non-zero TTL, Src/Dst from
// the arguments; the result is header ++ udp ++ payload.
func c18Client4Frame(c *Ctx) {
	r, sx := c.R, c.Sx()
	f := c.P.Func(cl4 + ".MakeRawUDPPacket")
	if f == nil {
		r.Undecided("C18-K12", "client4.MakeRawUDPPacket", "-", "not found")
		return
	}
	key := func(s string) string { return "client4.MakeRawUDPPacket: " + s }
	payload, server, client := f.Params[0], f.Params[1], f.Params[2]
	_ = server
	// the UDP header buffer: make([]byte, 8)
	var udp ssa.Value
	allInstrs(f, func(in ssa.Instruction) {
		if udp != nil {
			return
		}
		switch x := in.(type) {
		case *ssa.MakeSlice:
			if k, ok := intConst(x.Len); ok && k == 8 {
				udp = x
			}
		case *ssa.Slice:
			// make([]byte, 8) with a constant size is `new [8]byte` sliced whole
			if al, ok := x.X.(*ssa.Alloc); ok && al.Comment == "makeslice" {
				if at, ok := al.Type().(*types.Pointer).Elem().Underlying().(*types.Array); ok && at.Len() == 8 {
					udp = x
				}
			}
		}
	})
	// params are structs passed by value: spilled to allocs; describe by sx strings
	stores := map[int64]ssa.Value{}
	bad := ""
	allInstrs(f, func(in ssa.Instruction) {
		cl, ok := in.(*ssa.Call)
		if !ok || cl.Call.StaticCallee() == nil || funcKey(cl.Call.StaticCallee()) != "(encoding/binary.bigEndian).PutUint16" || len(cl.Call.Args) != 3 {
			return
		}
		sl, ok := cl.Call.Args[1].(*ssa.Slice)
		if !ok || sl.X != udp {
			return
		}
		var lo int64
		if sl.Low != nil {
			k, ok := intConst(sl.Low)
			if !ok {
				bad = "a 16-bit store at a non-constant offset at " + c.P.ipos(cl)
				return
			}
			lo = k
		}
		if _, dup := stores[lo]; dup {
			bad = fmt.Sprintf("two stores at offset %d", lo)
		}
		stores[lo] = cl.Call.Args[2]
	})
	if bad != "" {
		r.Violation("C18-K12", key("UDP header stores"), c.P.pos(f.Pos()), bad)
		return
	}
	want := func(off int64, what string, ok func(s string) bool) {
		v, have := stores[off]
		if !have {
			r.Violation("C18-K12", key(what), c.P.pos(f.Pos()), fmt.Sprintf("no 16-bit big-endian store at offset %d of the UDP header", off))
			return
		}
		s := sx.Of(v).String()
		r.Check(ok(s), "C18-K12", key(what), c.P.pos(v.Pos()), "symx of the value stored at the RFC 768 offset", fmt.Sprintf("offset %d holds %s", off, s))
	}
	// struct parameters are spilled to a local cell at entry; the cell stands for the parameter while it has no other store
	spill := func(p *ssa.Parameter) string {
		for _, ref := range *p.Referrers() {
			if st, ok := ref.(*ssa.Store); ok && st.Val == ssa.Value(p) {
				if al, ok := st.Addr.(*ssa.Alloc); ok {
					n := 0
					for _, r2 := range *al.Referrers() {
						if s2, ok := r2.(*ssa.Store); ok && s2.Addr == ssa.Value(al) {
							n++
						}
					}
					if n == 1 {
						return sx.Of(al).String()
					}
				}
			}
		}
		return sx.Of(p).String()
	}
	cs, ss, ps := spill(client), spill(server), sx.Of(payload).String()
	want(0, "source port at offset 0 is clientAddr.Port", func(s string) bool { return s == "conv[uint16](field[Port]("+cs+"))" })
	want(2, "destination port at offset 2 is serverAddr.Port", func(s string) bool { return s == "conv[uint16](field[Port]("+ss+"))" })
	want(4, "length at offset 4 is 8 + len(payload)", func(s string) bool {
		return normSumStr(s) == normSumStr("conv[uint16](bin[+](const(8),len("+ps+")))")
	})
	if v, have := stores[6]; have {
		if k, ok := intConst(v); ok && k == 0 {
			r.OK("C18-K12", key("checksum at offset 6 is 0 (no checksum, RFC 768)"), c.P.pos(f.Pos()), "constant", "")
		} else {
			r.OK("C18-K12", key("checksum at offset 6 is computed"), c.P.pos(f.Pos()), "value judged by the fold rule (C18-K12 fold)", sx.Of(v).String())
		}
	}
	for off := range stores {
		if off != 0 && off != 2 && off != 4 && off != 6 {
			r.Violation("C18-K12", key("UDP header stores"), c.P.pos(f.Pos()), fmt.Sprintf("a store at offset %d matches no RFC 768 field", off))
		}
	}
	// the IPv4 header literal
	var hdr *ssa.Alloc
	allInstrs(f, func(in ssa.Instruction) {
		if al, ok := in.(*ssa.Alloc); ok && hdr == nil {
			if nt, ok := al.Type().(*types.Pointer).Elem().(*types.Named); ok && nt.Obj().Name() == "Header" && nt.Obj().Pkg() != nil && strings.HasSuffix(nt.Obj().Pkg().Path(), "x/net/ipv4") {
				for _, ref := range *al.Referrers() {
					if _, ok := ref.(*ssa.FieldAddr); ok {
						hdr = al
					}
				}
			}
		}
	})
	if hdr == nil {
		r.Undecided("C18-K12", key("ipv4.Header literal"), c.P.pos(f.Pos()), "not found")
		return
	}
	m, _ := allocFieldStores(c, hdr)
	chk := func(fld string, ok bool, why string) {
		r.Check(ok, "C18-K12", key("ipv4.Header."+fld+" = "+why), c.P.pos(hdr.Pos()), "symx of the field literal", fld+" is "+m[fld])
	}
	chk("Version", m["Version"] == "const(4)", "4")
	chk("Len", m["Len"] == "const(20)", "20")
	chk("Protocol", m["Protocol"] == "const(17)", "17 (UDP)")
	chk("TTL", m["TTL"] != "" && m["TTL"] != "const(0)", "non-zero")
	tl := strings.ReplaceAll(m["TotalLen"], "len("+sx.Of(udp).String()+")", "const(8)")
	chk("TotalLen", normSumStr(tl) == normSumStr("bin[+](const(28),len("+ps+"))"), "20 + 8 + len(payload)")
	chk("Dst", m["Dst"] == "field[IP]("+ss+")", "serverAddr.IP")
	chk("Src", m["Src"] == "field[IP]("+cs+")", "clientAddr.IP")
	for _, z := range []string{"TOS", "ID", "Flags", "FragOff", "Checksum", "Options"} {
		if v, ok := m[z]; ok && v != "const(0)" && !strings.HasPrefix(v, "const(nil") {
			r.Violation("C18-K12", key("ipv4.Header."+z+" left zero"), c.P.pos(hdr.Pos()), z+" is set to "+v)
		}
	}
	// the header that is marshalled is that literal
	allInstrs(f, func(in ssa.Instruction) {
		cl, ok := in.(*ssa.Call)
		if !ok || cl.Call.StaticCallee() == nil || !strings.HasSuffix(funcKey(cl.Call.StaticCallee()), "x/net/ipv4.Header).Marshal") {
			return
		}
		okH := cl.Call.Args[0] == ssa.Value(hdr)
		if al, isAl := cl.Call.Args[0].(*ssa.Alloc); isAl && !okH {
			n := 0
			for _, ref := range *al.Referrers() {
				if st, isSt := ref.(*ssa.Store); isSt && st.Addr == ssa.Value(al) {
					n++
					if ld, isLd := st.Val.(*ssa.UnOp); isLd && ld.X == ssa.Value(hdr) {
						okH = true
					}
				}
				if _, isFA := ref.(*ssa.FieldAddr); isFA {
					n += 2 // a later field write
				}
			}
			okH = okH && n == 1
		}
		r.Check(okH, "C18-K12", key("the marshalled header is the literal, unmodified"), c.P.ipos(cl), "single store of the composite literal", "Marshal is called on "+sx.Of(cl.Call.Args[0]).String())
	})
	// result: Marshal() ++ udp ++ payload
	for _, ret := range returnsOf(f) {
		if c0, ok := ret.Results[0].(*ssa.Const); ok && c0.IsNil() {
			continue
		}
		s := sx.Of(ret.Results[0]).String()
		us := sx.Of(udp).String()
		ok := strings.HasPrefix(s, "call[builtin append](call[builtin append](extract[0](call[(*golang.org/x/net/ipv4.Header).Marshal](") && strings.HasSuffix(s, ","+us+"),"+ps+")")
		r.Check(ok, "C18-K12", key("result is header ++ UDP header ++ payload"), c.P.ipos(ret), "symx", "returns "+s)
	}
}

// c18FoldComplete: K12 (fold) — a one's-complement sum kept in 32 bits is folded to 16 bits completely. The fold
// V = (X >> 16) + (X & 0xffff) can itself carry into bit 16, so V may be narrowed to 16 bits (directly or through
// ^) only if it is folded again: V feeds the φ that X is taken from (loop fold), or a second fold / an end-around
// add V + V>>16 is applied to it before the narrowing. A single fold followed by the narrowing drops the carry:
// the frame's checksum is off by one for the inputs whose fold carries.
func c18FoldComplete(c *Ctx, pkgs []string) {
	r := c.R
	n := 0
	for _, f := range c.P.ModuleFuncs() {
		in := false
		for _, p := range pkgs {
			if pkgPathOf(f) == p {
				in = true
			}
		}
		if !in || f.Blocks == nil {
			continue
		}
		allInstrs(f, func(ins ssa.Instruction) {
			v, ok := ins.(*ssa.BinOp)
			if !ok || v.Op != token.ADD {
				return
			}
			x := foldOperand(v)
			if x == nil {
				return
			}
			n++
			key := shortName(f) + ": fold (x>>16)+(x&0xffff) at " + c.P.ipos(v)
			// complete when V flows back into X, or is folded again / end-around added
			refold := false
			narrowed := ""
			seen := map[ssa.Value]bool{}
			var walk func(u ssa.Value, d int)
			walk = func(u ssa.Value, d int) {
				if seen[u] || d > 6 {
					return
				}
				seen[u] = true
				for _, ref := range *u.Referrers() {
					switch t := ref.(type) {
					case *ssa.Phi:
						if ssa.Value(t) == x || phiFeeds(t, x) {
							refold = true
						}
						walk(t, d+1)
					case *ssa.BinOp:
						if t.Op == token.SHR {
							if k, ok := intConst(t.Y); ok && k == 16 && t.X == u {
								refold = true
							}
						}
						if t.Op == token.XOR || t.Op == token.AND {
							walk(t, d+1)
						}
					case *ssa.UnOp:
						if t.Op == token.XOR {
							walk(t, d+1)
						}
					case *ssa.Convert:
						if b, ok := t.Type().Underlying().(*types.Basic); ok && (b.Kind() == types.Uint16 || b.Kind() == types.Int16) {
							narrowed = c.P.ipos(t)
						}
					case *ssa.Store:
						al, ok := t.Addr.(*ssa.Alloc)
						if t.Val != u || !ok {
							continue
						}
						// the value continues in the loads of the cell that can follow this store
						after := reachFromSuccs(t.Block(), nil, nil)
						for _, r2 := range *al.Referrers() {
							ld, ok := r2.(*ssa.UnOp)
							if !ok || ld.Op != token.MUL || ld.X != ssa.Value(al) {
								continue
							}
							follows := false
							if ld.Block() == t.Block() {
								si, li, killed := -1, -1, false
								for k, in := range t.Block().Instrs {
									if in == ssa.Instruction(t) {
										si = k
									}
									if in == ssa.Instruction(ld) {
										li = k
									}
								}
								if li > si {
									for k := si + 1; k < li; k++ {
										if st, ok := t.Block().Instrs[k].(*ssa.Store); ok && st.Addr == t.Addr {
											killed = true
										}
									}
									follows = !killed
								} else {
									follows = after[t.Block()]
								}
							} else {
								follows = after[ld.Block()]
							}
							if !follows {
								continue
							}
							if sameValue(ld, x) || ssa.Value(ld) == x {
								refold = true
							}
							walk(ld, d+1)
						}
					}
				}
			}
			walk(v, 0)
			switch {
			case refold:
				r.OK("C18-K12", key, c.P.ipos(v), "the folded value is folded again (loop, second fold or end-around add)", "")
			case narrowed != "":
				r.Violation("C18-K12", key, c.P.ipos(v), "the 32-bit sum is folded once and narrowed to 16 bits at "+narrowed+": the fold itself can carry into bit 16, and that carry is dropped — for such inputs the emitted checksum is off by one and the frame does not verify (RFC 1071 requires folding until no carry remains)")
			default:
				r.OK("C18-K12", key, c.P.ipos(v), "the folded value is not narrowed to 16 bits", "")
			}
		})
	}
	// second incomplete form: the end-around add  uint16(X + X>>16)  is a complete fold only of a sum of TWO 16-bit values
	// (X ≤ 0x1fffe: the add cannot carry twice). Applied to an accumulator of many words it adds the halves and throws the
	// carry of that addition away.
	for _, f := range c.P.ModuleFuncs() {
		in := false
		for _, p := range pkgs {
			if pkgPathOf(f) == p {
				in = true
			}
		}
		if !in || f.Blocks == nil {
			continue
		}
		allInstrs(f, func(ins ssa.Instruction) {
			v, ok := ins.(*ssa.BinOp)
			if !ok || v.Op != token.ADD {
				return
			}
			var x ssa.Value
			for _, p := range [][2]ssa.Value{{v.X, v.Y}, {v.Y, v.X}} {
				if sh, ok := p[1].(*ssa.BinOp); ok && sh.Op == token.SHR && sameValue(sh.X, p[0]) {
					if k, isK := intConst(sh.Y); isK && k == 16 {
						x = p[0]
					}
				}
			}
			if x == nil {
				return
			}
			narrowed := false
			for _, ref := range *v.Referrers() {
				if cv, ok := ref.(*ssa.Convert); ok {
					if b, ok := cv.Type().Underlying().(*types.Basic); ok && b.Kind() == types.Uint16 {
						narrowed = true
					}
				}
			}
			if !narrowed {
				return
			}
			n++
			key := shortName(f) + ": end-around add uint16(x + x>>16) at " + c.P.ipos(v)
			is16 := func(u ssa.Value) bool {
				cv, ok := u.(*ssa.Convert)
				if !ok {
					return false
				}
				b, ok := cv.X.Type().Underlying().(*types.Basic)
				return ok && (b.Kind() == types.Uint16 || b.Kind() == types.Uint8)
			}
			two := false
			if sum, ok := x.(*ssa.BinOp); ok && sum.Op == token.ADD && is16(sum.X) && is16(sum.Y) {
				two = true
			}
			r.Check(two, "C18-K12", key, c.P.ipos(v), "x is the sum of two zero-extended 16-bit values",
				"x + x>>16 narrowed to 16 bits folds completely only when x is the sum of two 16-bit values; here x is a wider accumulator, so the carry out of low(x)+high(x) is dropped and the checksum is off by one for the inputs that produce it")
		})
	}
	r.Count("C18-K12-folds", n)
}

// foldOperand: v = (x >> 16) + (x & 0xffff) in either order; returns x
func foldOperand(v *ssa.BinOp) ssa.Value {
	try := func(a, b ssa.Value) ssa.Value {
		sh, ok := a.(*ssa.BinOp)
		if !ok || sh.Op != token.SHR {
			return nil
		}
		if k, ok := intConst(sh.Y); !ok || k != 16 {
			return nil
		}
		an, ok := b.(*ssa.BinOp)
		if !ok || an.Op != token.AND {
			return nil
		}
		for _, p := range [][2]ssa.Value{{an.X, an.Y}, {an.Y, an.X}} {
			if k, ok := intConst(p[1]); ok && k == 0xffff && sameValue(p[0], sh.X) {
				return sh.X
			}
		}
		return nil
	}
	if x := try(v.X, v.Y); x != nil {
		return x
	}
	return try(v.Y, v.X)
}

// sameValue: identical SSA value, or two loads of the same local cell
func sameValue(a, b ssa.Value) bool {
	if a == b {
		return true
	}
	la, ok1 := a.(*ssa.UnOp)
	lb, ok2 := b.(*ssa.UnOp)
	if ok1 && ok2 && la.Op == token.MUL && lb.Op == token.MUL && la.X == lb.X && la.Block() == lb.Block() {
		// no store to the cell between the two loads
		blk := la.Block()
		i, j := -1, -1
		for k, in := range blk.Instrs {
			if in == ssa.Instruction(la) {
				i = k
			}
			if in == ssa.Instruction(lb) {
				j = k
			}
		}
		if i > j {
			i, j = j, i
		}
		for k := i + 1; k < j; k++ {
			if st, ok := blk.Instrs[k].(*ssa.Store); ok && st.Addr == la.X {
				return false
			}
			if _, ok := blk.Instrs[k].(*ssa.Call); ok {
				return false
			}
		}
		return true
	}
	return false
}

func phiFeeds(p *ssa.Phi, x ssa.Value) bool {
	seen := map[ssa.Value]bool{}
	var walk func(v ssa.Value, d int) bool
	walk = func(v ssa.Value, d int) bool {
		if v == x {
			return true
		}
		if seen[v] || d > 4 {
			return false
		}
		seen[v] = true
		for _, ref := range *v.Referrers() {
			if q, ok := ref.(*ssa.Phi); ok && walk(q, d+1) {
				return true
			}
		}
		return false
	}
	return walk(p, 0)
}
