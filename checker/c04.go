package main

// C04 — DHCPv4 decoding accepts exactly well-formed packets (direction "accepts no more than").

import (
	"fmt"
	"go/token"
	"strings"

	"golang.org/x/tools/go/ssa"
)

func init() { register("C04", true, checkC04) }

func checkC04(c *Ctx) {
	e1CheckConstants(c, "C04-K6", []string{"dhcpv4.", "iana.Arch", "iana.HWType"}, 200)
	byteOrderRule(c, "C04-K7", []string{"dhcpv4", "iana", "rfc1035label"}, 10)
	e8CheckRejects(c, "C04-K8", func(n string) bool { return n == "dhcpv4.FromBytes" || strings.Contains(n, "dhcpv4.Options)") }, 3)
	r := c.R
	r.Decides = append(r.Decides,
		"K1 dhcpv4.FromBytes returns a packet only if the Lexer error is nil after the last header read (every header read dominates the test), the cookie equals the magic constant and option parsing returned nil",
		"K2 option loop: code 0 continues without reading a length; code 255 leaves the loop and sets the flag the End check reads; a value that overruns the buffer (Consume == nil) is an error; success requires End seen or checkEnd false; FromBytes passes checkEnd = true",
		"K3 hlen clamp: the hardware address is the first min(hlen,16) bytes of the 16 read",
		"K5 the server host name and boot file name are the bytes of their fixed fields up to the first NUL, converted without re-encoding (shared with C01-K2)",
		"K4 nothing after End is read; instances concatenate in order of appearance (C01-K4); header layout (C01-K1 rows, re-evaluated)")
	r.NotDecided = append(r.NotDecided, "that every well-formed packet is accepted, beyond the census of explicit rejections (K8): a rejection expressed through the Lexer or a callee is judged by the schema rows only", "field values beyond the slot/field agreement of C01-K1")
	c04Header(c)
	c01Names(c, "C04-K5")
	decoderKeepsResult(c, "C04-K9", c.P.Func(modPath+"/dhcpv4.FromBytes"))
	// the values read stay what was read: the decoded packet shares no memory with the datagram (shared C08-K1)
	if f := c.P.Func(modPath + "/dhcpv4.FromBytes"); f != nil {
		fnd := getE3(c).retentionFindings(f, 0)
		for _, x := range fnd {
			if strings.HasPrefix(x.short, "UNDECIDED") {
				c.R.Undecided("C04-K10", "dhcpv4.FromBytes: "+x.short, x.pos, x.detail)
			} else {
				c.R.Violation("C04-K10", "dhcpv4.FromBytes: the decoded packet aliases its input ("+x.short+")", x.pos, x.detail)
			}
		}
		if len(fnd) == 0 {
			c.R.OK("C04-K10", "dhcpv4.FromBytes: the decoded packet shares no memory with its input", c.P.pos(f.Pos()), "E3: flows(Pd/Pr(input)) = ∅", "")
		}
	}
	c04Loop(c)
	e2CheckLayouts(c, "C04-K4", func(name string, f *ssa.Function) bool { return name == "dhcpv4.FromBytes" }, 1)
	c09Reassembly2(c, "C04-K4")
}

func lexReadName(cl *ssa.Call) string {
	sf := cl.Call.StaticCallee()
	if sf == nil || !inUio(sf) {
		return ""
	}
	switch sf.Name() {
	case "Read8", "Read16", "Read32", "Read64", "ReadBytes", "CopyN", "Consume", "ReadAll":
		return sf.Name()
	}
	return ""
}

func c04Header(c *Ctx) {
	r, sx := c.R, c.Sx()
	f := c.P.Func(modPath + "/dhcpv4.FromBytes")
	if f == nil {
		r.Undecided("C04-K1", "dhcpv4.FromBytes", "-", "not found")
		return
	}
	key := func(s string) string { return "dhcpv4.FromBytes: " + s }
	var errCall *ssa.Call
	var errIf *ssa.If
	for _, b := range f.Blocks {
		iff := ifOf(b)
		if iff == nil {
			continue
		}
		if _, _, ok := nilEdgesOf(iff, func(v ssa.Value) bool {
			cl, ok := v.(*ssa.Call)
			if ok && cl.Call.StaticCallee() != nil && strings.HasSuffix(funcKey(cl.Call.StaticCallee()), "uio.Lexer).Error") {
				errCall = cl
				return true
			}
			return false
		}); ok {
			errIf = iff
		}
	}
	if errIf == nil {
		r.Violation("C04-K1", key("Lexer error tested"), c.P.pos(f.Pos()), "buf.Error() is never tested: a truncated header is accepted with zero-valued fields")
		return
	}
	nReads := 0
	var late []string
	allInstrs(f, func(in ssa.Instruction) {
		if cl, ok := in.(*ssa.Call); ok && lexReadName(cl) != "" {
			nReads++
			if !instrDominates(cl, errCall) {
				late = append(late, lexReadName(cl)+" at "+c.P.ipos(cl))
			}
		}
	})
	r.Check(len(late) == 0 && nReads >= 14, "C04-K1", key("Lexer error tested after the last header read"), c.P.ipos(errIf), fmt.Sprintf("all %d reads dominate the test", nReads),
		"header reads after the error test: "+strings.Join(late, ", ")+" — a packet truncated inside those fields is accepted (the failed read yields zeros and later reads pick up the following bytes)")
	nilE, _, _ := nilEdgesOf(errIf, func(v ssa.Value) bool { return v == ssa.Value(errCall) })
	// cookie comparison
	var cookieOK Edge
	haveCookie := false
	for _, b := range f.Blocks {
		iff := ifOf(b)
		if iff == nil {
			continue
		}
		bo, ok := iff.Cond.(*ssa.BinOp)
		if !ok || (bo.Op != token.EQL && bo.Op != token.NEQ) {
			continue
		}
		xs, ys := sx.Of(bo.X).String(), sx.Of(bo.Y).String()
		if strings.Contains(xs+ys, "global(dhcpv4.magicCookie)") {
			haveCookie = true
			cookieOK = Edge{b, b.Succs[0]}
			if bo.Op == token.NEQ {
				cookieOK = Edge{b, b.Succs[1]}
			}
			// the other operand is the 4-byte array filled by the last read
			other := xs
			if strings.Contains(xs, "magicCookie") {
				other = ys
			}
			r.Check(strings.Contains(other, "[4]byte") || strings.Contains(other, "alloc("), "C04-K1", key("cookie compared with the 4 bytes read after the file field"), c.P.ipos(iff), "symx", "compares "+other)
		}
	}
	if !haveCookie {
		r.Violation("C04-K1", key("magic cookie compared"), c.P.pos(f.Pos()), "no comparison with magicCookie")
	}
	// option parse
	var opt *ssa.Call
	allInstrs(f, func(in ssa.Instruction) {
		if cl, ok := in.(*ssa.Call); ok && cl.Call.StaticCallee() != nil && cl.Call.StaticCallee().Name() == "fromBytesCheckEnd" {
			opt = cl
		}
	})
	if opt == nil {
		r.Violation("C04-K1", key("options parsed with the End check"), c.P.pos(f.Pos()), "fromBytesCheckEnd is not called")
		return
	}
	ce := sx.Of(opt.Call.Args[2]).String()
	r.Check(ce == "const(true)", "C04-K2", key("End option required (checkEnd = true)"), c.P.ipos(opt), "symx", "checkEnd argument is "+ce)
	ds := sx.Of(opt.Call.Args[1]).String()
	r.Check(strings.Contains(ds, "uio.Buffer).Data]"), "C04-K1", key("options are the remainder after the cookie"), c.P.ipos(opt), "symx", "options parsed from "+ds)
	var optNil Edge
	haveOpt := false
	for _, b := range f.Blocks {
		if iff := ifOf(b); iff != nil {
			if ne, _, ok := nilEdgesOf(iff, func(v ssa.Value) bool { return v == ssa.Value(opt) }); ok {
				optNil, haveOpt = ne, true
			}
		}
	}
	for _, ret := range returnsOf(f) {
		if !isNilConst(ret.Results[1]) {
			continue
		}
		r.Check(mustPassEdges(f, ret.Block(), nilE), "C04-K1", key("success requires a complete header"), c.P.ipos(ret), "must-pass the no-error edge", "success reachable without the Lexer error test")
		if haveCookie {
			r.Check(mustPassEdges(f, ret.Block(), cookieOK), "C04-K1", key("success requires the magic cookie"), c.P.ipos(ret), "must-pass the cookie-equal edge", "success reachable with a wrong cookie")
		}
		r.Check(haveOpt && mustPassEdges(f, ret.Block(), optNil), "C04-K1", key("success requires the options to parse"), c.P.ipos(ret), "must-pass the options-ok edge", "success reachable although option parsing failed")
	}
	// K3 hlen clamp
	var hw *ssa.Store
	allInstrs(f, func(in ssa.Instruction) {
		if st, ok := in.(*ssa.Store); ok {
			if fa, ok := st.Addr.(*ssa.FieldAddr); ok && derefStruct(fa.X.Type()).Field(fa.Field).Name() == "ClientHWAddr" {
				if _, isSl := st.Val.(*ssa.Slice); isSl {
					hw = st
				}
			}
		}
	})
	if hw == nil {
		r.Violation("C04-K3", key("hardware address clipped to hlen"), c.P.pos(f.Pos()), "ClientHWAddr is not re-sliced to the hlen read")
		return
	}
	sl := hw.Val.(*ssa.Slice)
	okClamp := false
	if ph, ok := sl.High.(*ssa.Phi); ok && sl.Low == nil {
		has16, hasRead := false, false
		for _, e := range ph.Edges {
			if k, ok := intConst(e); ok && k == 16 {
				has16 = true
			}
			if strings.Contains(sx.Of(e).String(), "uio.Lexer).Read8]") {
				hasRead = true
			}
		}
		// 16 edge under hlen > 16
		if has16 && hasRead {
			for _, b := range f.Blocks {
				if iff := ifOf(b); iff != nil {
					s := sx.Of(iff.Cond).String()
					if strings.HasPrefix(s, "bin[<](const(16),call[(*github.com/u-root/uio/uio.Lexer).Read8]") {
						okClamp = true
					}
				}
			}
		}
	}
	r.Check(okClamp, "C04-K3", key("hardware address is the first min(hlen,16) bytes"), c.P.ipos(hw), "slice bound = φ(hlen, 16) under hlen > 16", "the hardware address is cut at "+sx.Of(sl.High).String())
}

func c04Loop(c *Ctx) {
	r, sx := c.R, c.Sx()
	var f *ssa.Function
	for _, g := range c.P.ModuleFuncs() {
		if pkgPathOf(g) == modPath+"/dhcpv4" && g.Name() == "fromBytesCheckEnd" {
			f = g
		}
	}
	if f == nil {
		r.Undecided("C04-K2", "fromBytesCheckEnd", "-", "not found")
		return
	}
	key := func(s string) string { return "dhcpv4.fromBytesCheckEnd: " + s }
	var reads []*ssa.Call
	var consume *ssa.Call
	allInstrs(f, func(in ssa.Instruction) {
		if cl, ok := in.(*ssa.Call); ok {
			switch lexReadName(cl) {
			case "Read8":
				reads = append(reads, cl)
			case "Consume":
				consume = cl
			}
		}
	})
	if len(reads) != 2 || consume == nil {
		r.Undecided("C04-K2", key("shape"), c.P.pos(f.Pos()), fmt.Sprintf("expected code read, length read and Consume; found %d reads, consume=%v", len(reads), consume != nil))
		return
	}
	// the Lexer of the loop covers exactly the bytes handed in (nothing trimmed or skipped beforehand)
	allInstrs(f, func(in ssa.Instruction) {
		if cl, ok := in.(*ssa.Call); ok && isFuncCall(cl.Common(), uioPath, "NewBigEndianBuffer") {
			got, want := sx.Of(cl.Call.Args[0]).String(), sx.Of(f.Params[1]).String()
			r.Check(got == want, "C04-K2", key("the option Lexer covers the whole area handed in"), c.P.ipos(cl), "NewBigEndianBuffer(data) with data the parameter itself",
				"the Lexer is built over "+got+" instead of the parameter: bytes are dropped before parsing (e.g. trailing zeros), so an area without End — or with a truncated last option — can be accepted")
		}
	})
	code, length := reads[0], reads[1]
	if instrDominates(length, code) {
		code, length = length, code
	}
	loop := sccOf(code.Block())
	if loop == nil {
		r.Violation("C04-K2", key("option loop"), c.P.ipos(code), "the code read is not in a loop")
		return
	}
	var hdr *ssa.BasicBlock
	for b := range loop {
		if isLoopHeader(b) {
			hdr = b
		}
	}
	// pad: code == 0 → header, before the length read
	okPad, okEnd := false, false
	var endBlock *ssa.BasicBlock
	var endE Edge
	for b := range loop {
		iff := ifOf(b)
		if iff == nil {
			continue
		}
		bo, ok := iff.Cond.(*ssa.BinOp)
		if !ok || bo.Op != token.EQL || bo.X != ssa.Value(code) {
			continue
		}
		k, _ := intConst(bo.Y)
		switch k {
		case 0:
			// true edge returns to the header without passing the length read
			t := b.Succs[0]
			reach := reachFrom(t, nil, map[*ssa.BasicBlock]bool{hdr: true})
			passesLen := reach[length.Block()]
			okPad = (t == hdr || !passesLen) && b.Dominates(length.Block()) && b != length.Block()
		case 255:
			t := b.Succs[0]
			// leaves the loop
			leaves := !loop[t]
			for x := range reachFrom(t, nil, nil) {
				if x == hdr {
					leaves = false
				}
			}
			okEnd = leaves && b.Dominates(length.Block())
			endBlock = t
			endE = Edge{b, t}
		}
	}
	r.Check(okPad, "C04-K2", key("pad (code 0) is skipped without reading a length"), c.P.ipos(code), "code==0 edge returns to the loop header before the length read", "a pad byte is treated as an option with a length")
	r.Check(okEnd, "C04-K2", key("End (code 255) stops the option loop before reading a length"), c.P.ipos(code), "code==255 edge leaves the loop", "End does not terminate the option area")
	// overrun
	okNil := false
	for b := range loop {
		if iff := ifOf(b); iff != nil {
			if nilE, _, ok := nilEdgesOf(iff, func(v ssa.Value) bool { return v == ssa.Value(consume) }); ok {
				if ret, isRet := nilE.To.Instrs[len(nilE.To.Instrs)-1].(*ssa.Return); isRet && definitelyError(ret.Results[0], ret) {
					okNil = true
				}
			}
		}
	}
	r.Check(okNil, "C04-K2", key("a value overrunning the buffer is an error"), c.P.ipos(consume), "Consume == nil edge returns an error", "an option whose length exceeds the remaining bytes is accepted")
	cs := sx.Of(consume.Call.Args[1]).String()
	r.Check(cs == "conv[int]("+sx.Of(length).String()+")", "C04-K2", key("value length is the length byte"), c.P.ipos(consume), "symx", "Consume size is "+cs)
	// End required
	// isEndFlag: a boolean φ that is true only on paths through the `code == 255` edge (a flag raised in the End case,
	// whatever the variable is called)
	var isEndFlag func(v ssa.Value, d int) bool
	isEndFlag = func(v ssa.Value, d int) bool {
		ph, ok := v.(*ssa.Phi)
		if !ok || d > 3 {
			return false
		}
		sawTrue := false
		for i, e := range ph.Edges {
			if b, isB := boolConst(e); isB {
				if b {
					pred := ph.Block().Preds[i]
					if !(pred == endE.To || mustPassEdges(f, pred, endE)) {
						return false
					}
					sawTrue = true
				}
				continue
			}
			if e == v {
				continue
			}
			if isEndFlag(e, d+1) {
				sawTrue = true
				continue
			}
			return false
		}
		return sawTrue
	}
	if endBlock != nil {
		for _, ret := range returnsOf(f) {
			if !isNilConst(ret.Results[0]) || ret.Block() == f.Blocks[1] {
				continue
			}
			// success after the loop: requires having come through the End edge or checkEnd == false
			var endEdge, noCheck []Edge
			for _, b := range f.Blocks {
				iff := ifOf(b)
				if iff == nil {
					continue
				}
				if tE, fE, ok := boolEdgesOf(iff, func(v ssa.Value) bool { return v == ssa.Value(f.Params[2]) }); ok {
					_ = tE
					noCheck = append(noCheck, fE)
				}
				if tE, _, ok := boolEdgesOf(iff, func(v ssa.Value) bool { return isEndFlag(v, 0) }); ok {
					endEdge = append(endEdge, tE)
				}
			}
			// having taken the `code == 255` edge itself (an early return from the End case, or a break)
			endEdge = append(endEdge, endE)
			if len(gcFacts(c, ret.Block())) == 0 && ret.Block().Index <= 1 {
				continue // the early `len(data) == 0` return is judged by the caller's cookie/length rules
			}
			all := append(append([]Edge{}, endEdge...), noCheck...)
			if len(all) == 0 {
				r.Violation("C04-K2", key("End required"), c.P.ipos(ret), "no test of the end flag / checkEnd before success")
				continue
			}
			if mustPassEdges(f, ret.Block(), all...) {
				r.OK("C04-K2", key("success after the loop requires End seen or checkEnd false"), c.P.ipos(ret), "must-pass {end==true, checkEnd==false}", "")
			} else if reachFrom(f.Blocks[0], nil, map[*ssa.BasicBlock]bool{hdr: true})[ret.Block()] {
				// reachable without entering the loop: the empty-options early return
				r.OK("C04-K2", key("empty options area accepted before the loop"), c.P.ipos(ret), "return not reachable through the loop only", "")
			} else {
				r.Violation("C04-K2", key("success after the loop requires End seen or checkEnd false"), c.P.ipos(ret), "an options area without End is accepted although checkEnd is set")
			}
		}
	}
	// K4: no Lexer read after the loop
	for _, b := range f.Blocks {
		if loop[b] || !hdr.Dominates(b) {
			continue
		}
		for _, in := range b.Instrs {
			if cl, ok := in.(*ssa.Call); ok && lexReadName(cl) != "" {
				r.Violation("C04-K4", key("nothing is read after End"), c.P.ipos(cl), "a Lexer read after the option loop: bytes after End influence the result")
			}
		}
	}
	r.OK("C04-K4", key("nothing is read after the option loop"), c.P.pos(f.Pos()), "no Lexer read dominated by the loop exit", "")
}

func gcFacts(c *Ctx, b *ssa.BasicBlock) []guardFact { return newGuardCache(c).of(b) }

// decoderKeepsResult: the message a top-level decoder is building is not handed to another function before it is
// returned (folding "overloaded" fields into the options, normalising, validating with side effects …): what the
// caller gets is what the reads put there. The nested option-list decoders receive a field of it, not the message.
func decoderKeepsResult(c *Ctx, rule string, f *ssa.Function) {
	r := c.R
	if f == nil {
		return
	}
	n := 0
	for v := range resultObjects(f) {
		al, ok := v.(*ssa.Alloc)
		if !ok || al.Referrers() == nil {
			continue
		}
		n++
		bad := false
		for _, ref := range *al.Referrers() {
			ci, ok := ref.(ssa.CallInstruction)
			if !ok {
				continue
			}
			for _, a := range ci.Common().Args {
				if a == ssa.Value(al) {
					bad = true
					r.Violation(rule, shortName(f)+": the message being decoded is handed to "+calleeName(ci.Common())+" before it is returned", c.P.ipos(ref),
						"a function that receives the half-built message can rewrite what the header and option reads stored (fields cleared, options merged or deleted): the decoded value no longer equals the wire bytes")
				}
			}
		}
		if !bad {
			r.OK(rule, shortName(f)+": the message being decoded is only filled by the decoder itself", c.P.pos(f.Pos()), "the result object is never a call argument", "")
		}
	}
	if n == 0 {
		r.Undecided(rule, shortName(f)+": result object", c.P.pos(f.Pos()), "no allocated result object found")
	}
}
