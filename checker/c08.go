package main

import (
	"go/types"
	"strings"

	"golang.org/x/tools/go/ssa"
)

func init() { register("C08", true, checkC08) }

var codecPkgs = []string{modPath + "/dhcpv4", modPath + "/dhcpv6", modPath + "/iana", modPath + "/rfc1035label"}

func isByteSlice(t types.Type) bool {
	// exactly []byte: named slice types (net.IP, net.HardwareAddr) are values, not wire input
	s, ok := t.(*types.Slice)
	if !ok {
		return false
	}
	b, ok := s.Elem().Underlying().(*types.Basic)
	return ok && b.Kind() == types.Uint8
}

func isLexerPtr(t types.Type) bool { return namedIs(t, uioPath, "Lexer") }

func isErrorType(t types.Type) bool {
	return types.Identical(t, types.Universe.Lookup("error").Type())
}

// decodeEntries: functions of the codec packages that take wire bytes (a
// []byte or a *uio.Lexer) and can fail (an error result): the decoders by
// signature. Returns function -> index of the input parameter.
func decodeEntries(p *Prog) map[*ssa.Function]int {
	out := map[*ssa.Function]int{}
	for _, f := range p.ModuleFuncs() {
		if f.Parent() != nil {
			continue
		}
		ok := false
		for _, cp := range codecPkgs {
			if pkgPathOf(f) == cp {
				ok = true
			}
		}
		if !ok {
			continue
		}
		sig := f.Signature
		hasErr := false
		for i := 0; i < sig.Results().Len(); i++ {
			if isErrorType(sig.Results().At(i).Type()) {
				hasErr = true
			}
		}
		if !hasErr {
			continue
		}
		for i, prm := range f.Params {
			if i == 0 && sig.Recv() != nil {
				continue
			}
			if isByteSlice(prm.Type()) || isLexerPtr(prm.Type()) {
				out[f] = i
				break
			}
		}
	}
	return out
}

func checkC08(c *Ctx) {
	r := c.R
	r.Decides = append(r.Decides,
		"K1 for every decoder (function of dhcpv4/dhcpv6/iana/rfc1035label taking wire bytes as []byte or *uio.Lexer and returning an error) no alias of the input may be reachable from the receiver, another parameter, a result or a global after the call (E3 heap-effect summaries, all paths, whole call-graph closure)",
		"K3 no decoder makes memory of a package-level variable part of the value it produces (decoded messages share nothing with each other)",
		"K2 the result of (*DHCPv4).ToBytes, (*Message).ToBytes, (*RelayMessage).ToBytes is memory allocated during the call: it aliases neither the receiver's memory nor a global")
	r.NotDecided = append(r.NotDecided, "nothing of the aliasing clause is left out, modulo the trusted models (uio.Lexer ADT, stdlib table) and the unverified analyser; observable consequences (printed form unchanged) follow from K1")
	e := getE3(c)
	entries := decodeEntries(c.P)
	r.Expect("C08-K1-decoders", 60)
	var fs []*ssa.Function
	for f := range entries {
		fs = append(fs, f)
	}
	sortFuncs(fs)
	for _, f := range fs {
		name := shortName(f)
		// not entries (DESIGN E3 closing paragraph): higher-order decoder judged at its in-repo call
		// sites with the in-repo parsers; vendParseOption keeps its argument by design and is only
		// ever handed a copy (checked through OptVendorOpts.FromBytes, which is an entry).
		if strings.HasSuffix(name, ".FromBytesWithParser") || strings.HasSuffix(name, ".vendParseOption") {
			r.Ledger("C08-K1", name+": not an entry", c.P.pos(f.Pos()), "frozen exception (DESIGN §4 E3)", "judged through its in-repo callers")
			continue
		}
		r.Count("C08-K1-decoders", 1)
		for _, x := range e.sharedGlobalFindings(f) {
			r.Violation("C08-K3", name+": decoded value "+x.short, x.pos, x.detail)
		}
		fnd := e.retentionFindings(f, entries[f])
		if len(fnd) == 0 {
			r.OK("C08-K1", name+": input not retained", c.P.pos(f.Pos()), "E3: flows(Pd/Pr(input)) = ∅", "")
			continue
		}
		var where, details []string
		pos := ""
		for _, x := range fnd {
			if strings.HasPrefix(x.short, "UNDECIDED") {
				r.Undecided("C08-K1", name+": "+x.short, x.pos, x.detail)
			} else {
				where = append(where, x.short)
				details = append(details, x.detail)
				if pos == "" {
					pos = x.pos
				}
			}
		}
		if len(where) > 0 {
			r.Violation("C08-K1", name+": input retained", pos, "retained in: "+strings.Join(where, "; ")+"\n    "+strings.Join(details, "\n    "))
		}
	}
	// K2
	r.Expect("C08-K2-encoders", 3)
	for _, spec := range []struct{ pkg, typ string }{{"dhcpv4", "DHCPv4"}, {"dhcpv6", "Message"}, {"dhcpv6", "RelayMessage"}} {
		var f *ssa.Function
		for _, m := range c.P.MethodsNamed("ToBytes") {
			if n := recvNamed(m); n != nil && n.Obj().Name() == spec.typ && n.Obj().Pkg().Path() == modPath+"/"+spec.pkg {
				f = m
			}
		}
		if f == nil {
			r.Undecided("C08-K2", spec.pkg+"."+spec.typ+".ToBytes: anchor", "-", "encoder not found")
			continue
		}
		r.Count("C08-K2-encoders", 1)
		al := e.resultAliases(f, 0)
		if len(al) == 0 {
			r.OK("C08-K2", shortName(f)+": result is fresh", c.P.pos(f.Pos()), "E3: ret = {FRESH}", "")
		} else {
			r.Violation("C08-K2", shortName(f)+": result aliases "+strings.Join(al, ", "), c.P.pos(f.Pos()),
				"the encoded bytes may share memory with "+strings.Join(al, ", ")+": a caller modifying the output changes the message or a later encoding")
		}
		for k, v := range e.rootSummary(f).undecided {
			r.Undecided("C08-K2", shortName(f)+": "+k, v, "E3 cannot model: "+k)
		}
	}
	if c.Tier == "thorough" && c.P.Config.GOARCH == "amd64" {
		e3DeriveLexerModel(c, "C08-model")
	}
	r.Extra["e3_contexts"] = len(e.summ)
	r.Extra["e3_rounds"] = e.rounds
	r.Extra["e3_function_analyses"] = e.nAnalysed
	r.Assume("uio.Lexer behaves as the ADT table in checker/models.go (Consume/Data alias, CopyN/ReadAll copy)")
	r.Assume("external functions behave as their rows in checker/models.go; String/Error/Format methods defined outside the module are pure")
	r.Assume("no unsafe, cgo or reflection-based mutation in the analysed closure")
}

func sortFuncs(fs []*ssa.Function) {
	for i := 1; i < len(fs); i++ {
		for j := i; j > 0 && funcKey(fs[j]) < funcKey(fs[j-1]); j-- {
			fs[j], fs[j-1] = fs[j-1], fs[j]
		}
	}
}
