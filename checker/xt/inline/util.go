// Copyright 2023 The Go Authors. All rights reserved.
// Use of this source code is governed by a BSD-style
// license that can be found in the LICENSE file.

package inline

// This file defines various common helpers.

import (
	"go/ast"
	"go/constant"
	"go/token"
	"go/types"
	"reflect"
	"strings"

	"dhcpverif/xt/typeparams"
)

func is[T any](x any) bool {
	_, ok := x.(T)
	return ok
}

// TODO(adonovan): use go1.21's slices.Index.
func index[T comparable](slice []T, x T) int {
	for i, elem := range slice {
		if elem == x {
			return i
		}
	}
	return -1
}

func btoi(b bool) int {
	if b {
		return 1
	} else {
		return 0
	}
}

func offsetOf(fset *token.FileSet, pos token.Pos) int {
	return fset.PositionFor(pos, false).Offset
}

// objectKind returns an object's kind (e.g. var, func, const, typename).
func objectKind(obj types.Object) string {
	return strings.TrimPrefix(strings.ToLower(reflect.TypeOf(obj).String()), "*types.")
}

// within reports whether pos is within the half-open interval [n.Pos, n.End).
func within(pos token.Pos, n ast.Node) bool {
	return n.Pos() <= pos && pos < n.End()
}

// trivialConversion reports whether it is safe to omit the implicit
// value-to-variable conversion that occurs in argument passing or
// result return. The only case currently allowed is converting from
// untyped constant to its default type (e.g. 0 to int).
//
// The reason for this check is that converting from A to B to C may
// yield a different result than converting A directly to C: consider
// 0 to int32 to any.
//
// trivialConversion under-approximates trivial conversions, as unfortunately
// go/types does not record the type of an expression *before* it is implicitly
// converted, and therefore it cannot distinguish typed constant
// expressions from untyped constant expressions. For example, in the
// expression `c + 2`, where c is a uint32 constant, trivialConversion does not
// detect that the default type of this expression is actually uint32, not untyped
// int.
//
// We could, of course, do better here by reverse engineering some of go/types'
// constant handling. That may or may not be worthwhile.
//
// Example: in func f() int32 { return 0 },
// the type recorded for 0 is int32, not untyped int;
// although it is Identical to the result var,
// the conversion is non-trivial.
func trivialConversion(fromValue constant.Value, from, to types.Type) bool {
	if fromValue != nil {
		var defaultType types.Type
		switch fromValue.Kind() {
		case constant.Bool:
			defaultType = types.Typ[types.Bool]
		case constant.String:
			defaultType = types.Typ[types.String]
		case constant.Int:
			defaultType = types.Typ[types.Int]
		case constant.Float:
			defaultType = types.Typ[types.Float64]
		case constant.Complex:
			defaultType = types.Typ[types.Complex128]
		default:
			return false
		}
		return types.Identical(defaultType, to)
	}
	return types.Identical(from, to)
}

func checkInfoFields(info *types.Info) {
	assert(info.Defs != nil, "types.Info.Defs is nil")
	assert(info.Implicits != nil, "types.Info.Implicits is nil")
	assert(info.Scopes != nil, "types.Info.Scopes is nil")
	assert(info.Selections != nil, "types.Info.Selections is nil")
	assert(info.Types != nil, "types.Info.Types is nil")
	assert(info.Uses != nil, "types.Info.Uses is nil")
}

func funcHasTypeParams(decl *ast.FuncDecl) bool {
	// generic function?
	if decl.Type.TypeParams != nil {
		return true
	}
	// method on generic type?
	if decl.Recv != nil {
		t := decl.Recv.List[0].Type
		if u, ok := t.(*ast.StarExpr); ok {
			t = u.X
		}
		return is[*ast.IndexExpr](t) || is[*ast.IndexListExpr](t)
	}
	return false
}

// intersects reports whether the maps' key sets intersect.
func intersects[K comparable, T1, T2 any](x map[K]T1, y map[K]T2) bool {
	if len(x) > len(y) {
		return intersects(y, x)
	}
	for k := range x {
		if _, ok := y[k]; ok {
			return true
		}
	}
	return false
}

// convert returns syntax for the conversion T(x).
func convert(T, x ast.Expr) *ast.CallExpr {
	// The formatter generally adds parens as needed,
	// but before go1.22 it had a bug (#63362) for
	// channel types that requires this workaround.
	if ch, ok := T.(*ast.ChanType); ok && ch.Dir == ast.RECV {
		T = &ast.ParenExpr{X: T}
	}
	return &ast.CallExpr{
		Fun:  T,
		Args: []ast.Expr{x},
	}
}

// isPointer reports whether t's core type is a pointer.
func isPointer(t types.Type) bool {
	return is[*types.Pointer](typeparams.CoreType(t))
}

// indirectSelection is like seln.Indirect() without bug #8353.
func indirectSelection(seln *types.Selection) bool {
	// Work around bug #8353 in Selection.Indirect when Kind=MethodVal.
	if seln.Kind() == types.MethodVal {
		tArg, indirect := effectiveReceiver(seln)
		if indirect {
			return true
		}

		tParam := seln.Obj().Type().Underlying().(*types.Signature).Recv().Type()
		return isPointer(tArg) && !isPointer(tParam) // implicit *
	}

	return seln.Indirect()
}

// effectiveReceiver returns the effective type of the method
// receiver after all implicit field selections (but not implicit * or
// & operations) have been applied.
//
// The boolean indicates whether any implicit field selection was indirect.
func effectiveReceiver(seln *types.Selection) (types.Type, bool) {
	assert(seln.Kind() == types.MethodVal, "not MethodVal")
	t := seln.Recv()
	indices := seln.Index()
	indirect := false
	for _, index := range indices[:len(indices)-1] {
		if isPointer(t) {
			indirect = true
			t = typeparams.MustDeref(t)
		}
		t = typeparams.CoreType(t).(*types.Struct).Field(index).Type()
	}
	return t, indirect
}
