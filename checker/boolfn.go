package main

// Boolean functions by truth table (used where a rule is about WHAT a small predicate computes, not how it is written):
// a loop-free function whose result is a bool is evaluated abstractly for every assignment of its atomic conditions
// (comparisons and boolean calls that are not themselves built from booleans). Nested ifs, early returns, && / ||
// chains, temporaries holding partial results and De Morgan variants all yield the same table.

import (
	"fmt"
	"go/token"
	"go/types"

	"golang.org/x/tools/go/ssa"
)

func isBoolType(t types.Type) bool {
	bt, ok := t.Underlying().(*types.Basic)
	return ok && bt.Kind() == types.Bool
}

// boolAtomsOf: the atomic boolean values a function branches on or returns
func boolAtomsOf(f *ssa.Function) []ssa.Value {
	seen := map[ssa.Value]bool{}
	var out []ssa.Value
	var visit func(v ssa.Value, d int)
	visit = func(v ssa.Value, d int) {
		if d > 12 || v == nil {
			return
		}
		switch t := v.(type) {
		case *ssa.Const:
			return
		case *ssa.UnOp:
			if t.Op == token.NOT {
				visit(t.X, d+1)
				return
			}
		case *ssa.Phi:
			if seen[v] {
				return
			}
			seen[v] = true
			for _, e := range t.Edges {
				visit(e, d+1)
			}
			return
		case *ssa.BinOp:
			if (t.Op == token.EQL || t.Op == token.NEQ) && isBoolType(t.X.Type()) {
				visit(t.X, d+1)
				visit(t.Y, d+1)
				return
			}
		}
		if !seen[v] {
			seen[v] = true
			out = append(out, v)
		}
	}
	for _, b := range f.Blocks {
		if iff := ifOf(b); iff != nil {
			visit(iff.Cond, 0)
		}
	}
	for _, r := range returnsOf(f) {
		for _, v := range r.Results {
			if isBoolType(v.Type()) {
				visit(v, 0)
			}
		}
	}
	return out
}

// boolEval: the value of result index `res` of loop-free f under the assignment (by atom); ok=false when the function
// has a loop, branches on something outside the assignment, or runs more than 64 blocks
func boolEval(f *ssa.Function, res int, assign map[ssa.Value]bool) (bool, bool) {
	env := map[ssa.Value]bool{}
	var eval func(v ssa.Value, d int) (bool, bool)
	eval = func(v ssa.Value, d int) (bool, bool) {
		if d > 16 {
			return false, false
		}
		if b, ok := boolConst(v); ok {
			return b, true
		}
		if b, ok := env[v]; ok {
			return b, true
		}
		if b, ok := assign[v]; ok {
			return b, true
		}
		switch t := v.(type) {
		case *ssa.UnOp:
			if t.Op == token.NOT {
				x, ok := eval(t.X, d+1)
				return !x, ok
			}
		case *ssa.BinOp:
			if (t.Op == token.EQL || t.Op == token.NEQ) && isBoolType(t.X.Type()) {
				x, ok1 := eval(t.X, d+1)
				y, ok2 := eval(t.Y, d+1)
				return (x == y) == (t.Op == token.EQL), ok1 && ok2
			}
		}
		return false, false
	}
	var prev *ssa.BasicBlock
	cur := f.Blocks[0]
	for steps := 0; steps < 64; steps++ {
		for _, in := range cur.Instrs {
			ph, ok := in.(*ssa.Phi)
			if !ok {
				break
			}
			if !isBoolType(ph.Type()) {
				continue
			}
			for i, p := range cur.Preds {
				if p == prev {
					if b, ok := eval(ph.Edges[i], 0); ok {
						env[ph] = b
					} else {
						delete(env, ph)
					}
				}
			}
		}
		switch t := cur.Instrs[len(cur.Instrs)-1].(type) {
		case *ssa.Return:
			if res >= len(t.Results) {
				return false, false
			}
			return eval(t.Results[res], 0)
		case *ssa.If:
			c, ok := eval(t.Cond, 0)
			if !ok {
				return false, false
			}
			prev = cur
			if c {
				cur = cur.Succs[0]
			} else {
				cur = cur.Succs[1]
			}
		case *ssa.Jump:
			prev, cur = cur, cur.Succs[0]
		default:
			return false, false
		}
	}
	return false, false
}

// isMembershipPredicate: loop-free closure f(p) bool that computes  subject(p) == t  ∨  slices.Contains(tt, subject(p))
// with t and tt the enclosing function's parameters (captured) and subject(p) the message type of p (the method
// MessageType() on p, or p's field MessageType). Decided by truth table over the two classes of atoms, so any
// spelling (early returns, one expression, temporaries) is the same predicate. Returns a description, or "" with the reason.
func isMembershipPredicate(f *ssa.Function) (string, string) {
	if f == nil || f.Blocks == nil || len(f.Params) != 1 || len(f.FreeVars) != 2 {
		return "", "not a closure over (t, tt) with one parameter"
	}
	for _, b := range f.Blocks {
		if inCycle(b) {
			return "", "has a loop"
		}
	}
	p := ssa.Value(f.Params[0])
	isSubject := func(v ssa.Value) bool {
		switch t := v.(type) {
		case *ssa.Call:
			sf := t.Call.StaticCallee()
			return sf != nil && sf.Name() == "MessageType" && len(t.Call.Args) == 1 && t.Call.Args[0] == p
		case *ssa.UnOp:
			if fa, ok := t.X.(*ssa.FieldAddr); ok && t.Op == token.MUL && fa.X == p {
				return derefStruct(fa.X.Type()).Field(fa.Field).Name() == "MessageType"
			}
		}
		return false
	}
	freeLoad := func(v ssa.Value) *ssa.FreeVar {
		if u, ok := v.(*ssa.UnOp); ok && u.Op == token.MUL {
			if fv, ok := u.X.(*ssa.FreeVar); ok {
				return fv
			}
		}
		return nil
	}
	var single, list *ssa.FreeVar
	for _, fv := range f.FreeVars {
		if pt, ok := fv.Type().Underlying().(*types.Pointer); ok {
			if _, isSlice := pt.Elem().Underlying().(*types.Slice); isSlice {
				list = fv
			} else {
				single = fv
			}
		}
	}
	if single == nil || list == nil {
		return "", "captured variables are not (one value, one list)"
	}
	var eqAtoms, inAtoms []ssa.Value
	for _, a := range boolAtomsOf(f) {
		switch t := a.(type) {
		case *ssa.BinOp:
			if t.Op == token.EQL && ((isSubject(t.X) && freeLoad(t.Y) == single) || (isSubject(t.Y) && freeLoad(t.X) == single)) {
				eqAtoms = append(eqAtoms, a)
				continue
			}
		case *ssa.Call:
			if sf := t.Call.StaticCallee(); sf != nil && funcKey(originOf(sf)) == "slices.Contains" && len(t.Call.Args) == 2 && freeLoad(t.Call.Args[0]) == list && isSubject(t.Call.Args[1]) {
				inAtoms = append(inAtoms, a)
				continue
			}
		}
		return "", "branches on something other than `type == t` and `slices.Contains(tt, type)`"
	}
	if len(eqAtoms) == 0 || len(inAtoms) == 0 {
		return "", "one of the two membership tests is missing"
	}
	// nothing but the tests: no stores, no other calls with effects
	for _, b := range f.Blocks {
		for _, in := range b.Instrs {
			switch t := in.(type) {
			case *ssa.Store, *ssa.MapUpdate, *ssa.Send, *ssa.Go, *ssa.Defer, *ssa.Panic:
				return "", "has effects"
			case *ssa.Call:
				if !isSubject(t) {
					isIn := false
					for _, a := range inAtoms {
						if a == ssa.Value(t) {
							isIn = true
						}
					}
					if !isIn {
						return "", "calls " + calleeName(t.Common())
					}
				}
			}
		}
	}
	for _, eq := range []bool{false, true} {
		for _, in := range []bool{false, true} {
			as := map[ssa.Value]bool{}
			for _, a := range eqAtoms {
				as[a] = eq
			}
			for _, a := range inAtoms {
				as[a] = in
			}
			got, ok := boolEval(f, 0, as)
			if !ok {
				return "", "not evaluable"
			}
			if got != (eq || in) {
				return "", fmt.Sprintf("yields %v when type==t is %v and type∈tt is %v", got, eq, in)
			}
		}
	}
	return "type == t || slices.Contains(tt, type) on all 4 rows of the truth table", ""
}

// allByContainsFunc: f, the matcher IsAll returns, written with the slices package:
//
//	return !slices.ContainsFunc(ms, func(m Matcher) bool { return !m(p) })
//
// — "no matcher rejects p", which is "every matcher accepts p" (true for no matchers, stops at the first rejection).
// Both negations are part of the form: without them the function is "some matcher accepts". Returns the inner function
// literal, or nil.
func allByContainsFunc(f *ssa.Function) *ssa.Function {
	if f == nil || f.Parent() == nil || len(f.Params) != 1 || len(f.FreeVars) != 1 {
		return nil
	}
	rets := returnsOf(f)
	if len(rets) != 1 || len(rets[0].Results) != 1 {
		return nil
	}
	not, ok := rets[0].Results[0].(*ssa.UnOp)
	if !ok || not.Op != token.NOT {
		return nil
	}
	cl, ok := not.X.(*ssa.Call)
	if !ok || cl.Call.StaticCallee() == nil || len(cl.Call.Args) != 2 {
		return nil
	}
	callee := originOf(cl.Call.StaticCallee())
	if callee.Pkg == nil || callee.Pkg.Pkg.Path() != "slices" || callee.Name() != "ContainsFunc" {
		return nil
	}
	// the scanned list is the captured list of matchers
	ld, ok := cl.Call.Args[0].(*ssa.UnOp)
	if !ok || ld.Op != token.MUL || ld.X != ssa.Value(f.FreeVars[0]) {
		if cl.Call.Args[0] != ssa.Value(f.FreeVars[0]) {
			return nil
		}
	}
	mc, ok := cl.Call.Args[1].(*ssa.MakeClosure)
	if !ok || len(mc.Bindings) != 1 {
		return nil
	}
	g, ok := mc.Fn.(*ssa.Function)
	if !ok || len(g.Params) != 1 || len(g.FreeVars) != 1 {
		return nil
	}
	// the binding is f's own parameter (the packet), possibly through its spill cell
	bind := mc.Bindings[0]
	if bind != ssa.Value(f.Params[0]) {
		al, isAl := bind.(*ssa.Alloc)
		stored := false
		if isAl {
			for _, ref := range *al.Referrers() {
				if st, ok := ref.(*ssa.Store); ok && st.Addr == ssa.Value(al) {
					if st.Val != ssa.Value(f.Params[0]) {
						return nil
					}
					stored = true
				}
			}
		}
		if !stored {
			return nil
		}
	}
	grets := returnsOf(g)
	if len(grets) != 1 || len(grets[0].Results) != 1 {
		return nil
	}
	gnot, ok := grets[0].Results[0].(*ssa.UnOp)
	if !ok || gnot.Op != token.NOT {
		return nil
	}
	gc, ok := gnot.X.(*ssa.Call)
	if !ok || gc.Call.IsInvoke() || gc.Call.StaticCallee() != nil || gc.Call.Value != ssa.Value(g.Params[0]) || len(gc.Call.Args) != 1 {
		return nil
	}
	arg := gc.Call.Args[0]
	if ld, ok := arg.(*ssa.UnOp); ok && ld.Op == token.MUL {
		arg = ld.X
	}
	if arg != ssa.Value(g.FreeVars[0]) {
		return nil
	}
	// nothing else happens in either function
	for _, fn := range []*ssa.Function{f, g} {
		n := 0
		allInstrs(fn, func(in ssa.Instruction) {
			if _, ok := in.(ssa.CallInstruction); ok {
				n++
			}
		})
		if n != 1 {
			return nil
		}
	}
	return g
}
