#!/usr/bin/env python3
"""Writes spec/builders.json from a fingerprint dump of the reviewed tree (bin/dhcpverif builders > /tmp/builders.json)
plus the hand-written required/forbidden items (DESIGN Appendix B: RFC 2131 Table 5 and §4.3-4.4, RFC 8415 §18-19, doc comments)."""
import json, sys
d = json.load(open(sys.argv[1] if len(sys.argv) > 1 else '/tmp/builders.json'))
REQ = {
 'dhcpv4.NewDiscovery': ('RFC 2131 §4.4.1, Table 5', ['WithHwAddr($hwaddr)', 'WithMessageType(const:1)', 'WithRequestedOptions(', 'then user modifiers $modifiers'], []),
 'dhcpv4.NewInform': ('RFC 2131 §4.4.3', ['WithHwAddr($hwaddr)', 'WithMessageType(const:8)', 'WithClientIP($localIP)', 'then user modifiers $modifiers'], []),
 'dhcpv4.NewRequestFromOffer': ('RFC 2131 §4.3.2 (SELECTING), Table 5', ['WithReply($offer)', 'WithMessageType(const:3)', 'WithOption(OptRequestedIPAddress($offer.YourIPAddr))', 'WithOptionCopied($offer, const:54)', 'then user modifiers $modifiers'], []),
 'dhcpv4.NewRenewFromAck': ('RFC 2131 §4.3.2 (RENEWING), §4.4.5', ['WithReply($ack)', 'WithMessageType(const:3)', 'WithClientIP($ack.YourIPAddr)', 'WithBroadcast(const:false)', 'then user modifiers $modifiers'], ['OptRequestedIPAddress', 'const:54']),
 'dhcpv4.NewReleaseFromACK': ('RFC 2131 §4.4.4, Table 5', ['WithMessageType(const:7)', 'WithClientIP($ack.YourIPAddr)', 'WithHwAddr($ack.ClientHWAddr)', 'WithBroadcast(const:false)', 'WithOptionCopied($ack, const:54)', 'then user modifiers $modifiers'], []),
 'dhcpv4.NewReplyFromRequest': ('RFC 2131 §4.3.1 Table 3; RFC 3046 §2.2; RFC 6842 §3', ['WithReply($request)', 'WithGatewayIP($request.GatewayIPAddr)', 'WithOptionCopied($request, const:82)', 'WithOptionCopied($request, const:61)', 'then user modifiers $modifiers'], []),
 'dhcpv4.WithReply$1': ('RFC 2131 §4.3.1 (reply correlation)', ['[if ($request.OpCode==const:1)] set OpCode := const:2', '[if ($request.OpCode!=const:1)] set OpCode := const:1', 'set HWType := $request.HWType', 'set TransactionID := $request.TransactionID', 'set ClientHWAddr := $request.ClientHWAddr', 'set Flags := $request.Flags'], []),
 'dhcpv4.WithOptionCopied$1': ('doc comment: copies the option iff present', ['[if ($request.Options.Get()!=const:nil:[]byte)] call UpdateOption(OptGeneric($opt,$request.Options.Get()))'], []),
 'dhcpv4.WithGatewayIP$1': ('doc', ['set GatewayIPAddr := $ip'], []), 'dhcpv4.WithClientIP$1': ('doc', ['set ClientIPAddr := $ip'], []),
 'dhcpv4.WithHwAddr$1': ('doc', ['set ClientHWAddr := $hwaddr'], []), 'dhcpv4.WithBroadcast$1': ('doc', ['[if $broadcast] call SetBroadcast()', '[if !$broadcast] call SetUnicast()'], []),
 'dhcpv4.newDHCPv4': ('doc: defaults, then modifiers in slice order', ['set TransactionID := $xid', 'apply $modifiers[]'], []),
 'dhcpv4.New': ('doc: fresh random transaction id, then newDHCPv4', ['call GenerateTransactionIDWithContext(context.Background())', 'call newDHCPv4('], []),
 'dhcpv6.NewAdvertiseFromSolicit': ('RFC 8415 §18.3.9', ['requires ($sol.Type()==const:1)', 'set MessageType := const:2', 'set TransactionID := $sol.TransactionID', 'call AddOption($sol.GetOneOption(1))'], []),
 'dhcpv6.NewRequestFromAdvertise': ('RFC 8415 §18.2.2', ['requires ($adv.MessageType==const:2)', 'requires ($adv.GetOneOption(1)!=', 'requires ($adv.GetOneOption(2)!=', 'requires ($adv.Options.OneIANA()!=', 'set MessageType := const:3', 'call AddOption($adv.GetOneOption(1))', 'call AddOption($adv.GetOneOption(2))', 'call AddOption($adv.Options.OneIANA())', 'call NewMessage('], ['set TransactionID := $adv.TransactionID']),
 'dhcpv6.NewReplyFromMessage': ('RFC 8415 §18.3.10', ['set MessageType := const:7', 'set TransactionID := $msg.TransactionID', 'call AddOption($msg.GetOneOption(1))', 'requires ($msg.GetOneOption(1)!='], []),
 'dhcpv6.EncapsulateRelay': ('RFC 8415 §19.1', ['set LinkAddr := $linkAddr', 'set PeerAddr := $peerAddr', '[if $d.IsRelay()] set HopCount := ($d.(dhcpv6.RelayMessage).HopCount+const:1)', 'call AddOption(OptRelayMessage($d))', 'set MessageType := $mType'], []),
 'dhcpv6.NewRelayReplFromRelayForw': ('RFC 8415 §19.3; RFC 4649 §3', ['requires ($relay.Type()==const:12)', 'requires ($msg!=const:nil', 'call EncapsulateRelay(φ('], []),
 '(*dhcpv4/nclient4.Client).RequestFromOffer': ('RFC 2131 §4.4.1 (property C13)', ['IsAll([IsCorrectServer($offer.ServerIdentifier()) IsMessageType(const:5, [const:6])])', 'set ACK := .SendAndRead()#0', 'set Offer := $offer', 'requires (.SendAndRead()#0.MessageType()!=const:6)', 'call NewRequestFromOffer($offer,'], []),
 '(*dhcpv4/nclient4.Client).Renew': ('RFC 2131 §4.4.5', ['call NewRenewFromAck($lease.ACK,', 'IsAll([IsCorrectServer($lease.Offer.ServerIdentifier()) IsMessageType(const:5, [const:6])])', 'set Offer := $lease.Offer', 'set ACK := .SendAndRead()#0'], []),
 '(*dhcpv4/nclient4.Client).Release': ('RFC 2131 §4.4.4', ['call NewReleaseFromACK($lease.ACK, $modifiers)', 'call conn.WriteTo(NewReleaseFromACK($lease.ACK,$modifiers)#0.ToBytes(),'], ['SendAndRead']),
 '(*dhcpv4/nclient4.Client).DiscoverOffer': ('RFC 2131 §4.4.1', ['IsMessageType(const:2,', 'call NewDiscovery(ifaceHWAddr,'], []),
 '(*dhcpv4/nclient4.Client).Inform': ('RFC 2131 §4.4.3', ['IsMessageType(const:5,', 'call NewInform(ifaceHWAddr, $localIP, $modifiers)'], []),
 '(*dhcpv6/nclient6.Client).Solicit': ('RFC 8415 §18.2.1', ['IsMessageType(const:2,'], []),
 '(*dhcpv6/nclient6.Client).RapidSolicit': ('RFC 8415 §18.2.1 (rapid commit)', ['IsMessageType(const:7, [const:2])', '[if (.SendAndRead()#0.MessageType==const:7)] return obj, nil', 'call recv.Request($ctx, .SendAndRead()#0, $modifiers)'], []),
 '(*dhcpv6/nclient6.Client).Request': ('RFC 8415 §18.2.2', ['call NewRequestFromAdvertise($advertise, $modifiers)'], []),
 'dhcpv4/nclient4.IsCorrectServer$1': ('property C13: server identifier equality', ['return $p.ServerIdentifier().Equal()'], []),
}
PARAMS = d.pop('__params__', {})
out = {}
bad = 0
for k in sorted(d):
    src, req, forb = REQ.get(k, ('reviewed against the doc comment', [], []))
    allt = '\n'.join(d[k])
    for r in req:
        if r not in allt:
            print('REQUIRED MISSING', k, r); bad += 1
    for f in forb:
        if f in allt:
            print('FORBIDDEN PRESENT', k, f); bad += 1
    out[k] = {'source': src, 'required': req, 'forbidden': forb, 'lines': d[k], 'params': PARAMS.get(k, [])}
for k in REQ:
    if k not in d:
        print('NO FUNCTION', k); bad += 1
json.dump({'builders': out}, open('spec/builders.json', 'w'), indent=1, ensure_ascii=False)
print(len(out), 'rows;', bad, 'problems')
