package main

// Byte-order rule (shared by the codec properties): DHCP is big-endian throughout. Within the given packages every
// uio.Lexer is built big-endian and no little-/native-endian codec of encoding/binary is referenced.

import (
	"fmt"
	"strings"

	"golang.org/x/tools/go/ssa"
)

func byteOrderRule(c *Ctx, rule string, pkgs []string, floor int) {
	r := c.R
	inScope := func(f *ssa.Function) bool {
		pp := pkgPathOf(f)
		for _, p := range pkgs {
			if pp == modPath+"/"+p {
				return true
			}
		}
		return false
	}
	n := 0
	for _, f := range c.P.ModuleFuncs() {
		if !inScope(f) {
			continue
		}
		fk := shortName(f)
		ord := map[string]int{}
		allInstrs(f, func(in ssa.Instruction) {
			if ci, ok := in.(ssa.CallInstruction); ok {
				cc := ci.Common()
				if sf := cc.StaticCallee(); sf != nil && pkgPathOf(sf) == uioPath && sf.Signature.Recv() == nil {
					switch sf.Name() {
					case "NewBigEndianBuffer":
						n++
					case "NewLittleEndianBuffer", "NewNativeEndianBuffer":
						ord[sf.Name()]++
						r.Violation(rule, fmt.Sprintf("%s: Lexer built by uio.%s #%d", fk, sf.Name(), ord[sf.Name()]), c.P.ipos(in),
							"multi-octet fields read or written through this Lexer are not in network byte order")
					case "NewLexer":
						okBE := false
						if len(cc.Args) == 2 {
							okBE = strings.Contains(c.Sx().Of(cc.Args[1]).String(), "binary.BigEndian")
						}
						if okBE {
							n++
						} else {
							ord["NewLexer"]++
							r.Violation(rule, fmt.Sprintf("%s: Lexer built by uio.NewLexer with a non-big-endian order #%d", fk, ord["NewLexer"]), c.P.ipos(in), "byte order argument is not binary.BigEndian")
						}
					}
				}
			}
			for _, op := range in.Operands(nil) {
				if op == nil || *op == nil {
					continue
				}
				if g, ok := (*op).(*ssa.Global); ok && g.Pkg != nil && g.Pkg.Pkg.Path() == "encoding/binary" && (g.Name() == "LittleEndian" || g.Name() == "NativeEndian") {
					ord[g.Name()]++
					r.Violation(rule, fmt.Sprintf("%s: uses binary.%s #%d", fk, g.Name(), ord[g.Name()]), c.P.ipos(in), "a wire value is converted in a byte order other than network order")
				}
			}
		})
	}
	r.Count(rule+"-big-endian-lexers", n)
	r.Expect(rule+"-big-endian-lexers", floor)
	r.OK(rule, "every Lexer in "+strings.Join(pkgs, ", ")+" is big-endian", "-", "constructor census", fmt.Sprintf("%d big-endian constructions, no other order", n))
}
