package main

// Obligations, verdict plumbing, evidence and replay files, known findings.

import (
	"crypto/sha1"
	"encoding/json"
	"fmt"
	"os"
	"path/filepath"
	"sort"
	"strings"
	"time"
)

type Status string

const (
	StOK        Status = "discharged"
	StLedger    Status = "ledger"
	StOpen      Status = "open"      // violation
	StUndecided Status = "undecided" // construct not recognised: fails the check, printed distinctly
)

type Obligation struct {
	Rule   string `json:"rule"`             // clause id, e.g. C14-K1
	Key    string `json:"key"`              // rule + function + construct descriptor; never a line number
	Pos    string `json:"pos"`              // file:line:col (informational)
	Status Status `json:"status"`           //
	By     string `json:"by,omitempty"`     // discharge rule / ledger id
	Detail string `json:"detail,omitempty"` // what was seen
	Config string `json:"config,omitempty"`
	// Trivial obligations (constant index into fixed array etc.) are not
	// counted as distinct_nontrivial.
	Trivial bool `json:"trivial,omitempty"`
}

type Report struct {
	Prop        string
	Tier        string
	Obls        []Obligation
	Instances   map[string]int // rule instance counts (measured)
	MinInst     map[string]int // minimum confirmed by hand on the pinned tree
	Assumptions []string
	Decides     []string
	NotDecided  []string
	Extra       map[string]interface{}
	Configs     []string
	start       time.Time
	curConfig   string
}

func NewReport(prop, tier string) *Report {
	return &Report{Prop: prop, Tier: tier, Instances: map[string]int{}, MinInst: map[string]int{}, Extra: map[string]interface{}{}, start: time.Now()}
}

func (r *Report) add(o Obligation) {
	o.Config = r.curConfig
	r.Obls = append(r.Obls, o)
}

func (r *Report) OK(rule, key, pos, by, detail string) {
	r.add(Obligation{Rule: rule, Key: rule + ": " + key, Pos: pos, Status: StOK, By: by, Detail: detail})
}
func (r *Report) Trivial(rule, key, pos, by string) {
	r.add(Obligation{Rule: rule, Key: rule + ": " + key, Pos: pos, Status: StOK, By: by, Trivial: true})
}
func (r *Report) Ledger(rule, key, pos, by, detail string) {
	r.add(Obligation{Rule: rule, Key: rule + ": " + key, Pos: pos, Status: StLedger, By: by, Detail: detail})
}
func (r *Report) Violation(rule, key, pos, detail string) {
	r.add(Obligation{Rule: rule, Key: rule + ": " + key, Pos: pos, Status: StOpen, Detail: detail})
}
func (r *Report) Undecided(rule, key, pos, detail string) {
	r.add(Obligation{Rule: rule, Key: rule + ": " + key, Pos: pos, Status: StUndecided, Detail: detail})
}

// Check records ok or violation depending on cond.
func (r *Report) Check(cond bool, rule, key, pos, okBy, failDetail string) bool {
	if cond {
		r.OK(rule, key, pos, okBy, "")
	} else {
		r.Violation(rule, key, pos, failDetail)
	}
	return cond
}

func (r *Report) Count(rule string, n int)  { r.Instances[rule] += n }
func (r *Report) Expect(rule string, n int) { r.MinInst[rule] = n }
func (r *Report) Assume(s string) {
	for _, a := range r.Assumptions {
		if a == s {
			return
		}
	}
	r.Assumptions = append(r.Assumptions, s)
}

type KnownFinding struct {
	Property string `json:"property"`
	Key      string `json:"key"`
	Status   string `json:"status"` // known | fixed
	Commit   string `json:"commit,omitempty"`
	What     string `json:"what"`
}

func loadKnown(verifDir string) ([]KnownFinding, error) {
	b, err := os.ReadFile(filepath.Join(verifDir, "known_findings.json"))
	if err != nil {
		if os.IsNotExist(err) {
			return nil, nil
		}
		return nil, err
	}
	var f struct {
		Findings []KnownFinding `json:"findings"`
	}
	if err := json.Unmarshal(b, &f); err != nil {
		return nil, fmt.Errorf("known_findings.json: %v", err)
	}
	return f.Findings, nil
}

// Finish prints verdict lines, writes evidence + replay files and returns the
// process exit code for this property.
func (r *Report) Finish(verifDir string, seed int64) int {
	known, kerr := loadKnown(verifDir)
	exit := 0
	if kerr != nil {
		fmt.Printf("ERROR property=%s %v\n", r.Prop, kerr)
		exit = 1
	}
	// instance floors
	var rules []string
	for k := range r.MinInst {
		rules = append(rules, k)
	}
	sort.Strings(rules)
	for _, k := range rules {
		if r.Instances[k] < r.MinInst[k] {
			r.Undecided(k, fmt.Sprintf("instance count %d below confirmed minimum %d", r.Instances[k], r.MinInst[k]), "-",
				"the rule matched fewer constructs than were confirmed by hand on the pinned tree: anchors moved or an idiom is no longer recognised")
		}
	}
	// dedupe obligations by (key, status, config) keeping order
	seen := map[string]bool{}
	var obls []Obligation
	for _, o := range r.Obls {
		k := o.Key + "|" + string(o.Status) + "|" + o.Config
		if seen[k] {
			continue
		}
		seen[k] = true
		obls = append(obls, o)
	}
	r.Obls = obls

	replayDir := filepath.Join(verifDir, "evidence", "replay")
	os.MkdirAll(replayDir, 0o755)
	nViol, nUndec, nKnown := 0, 0, 0
	printed := map[string]bool{}
	for i := range r.Obls {
		o := &r.Obls[i]
		if o.Status != StOpen && o.Status != StUndecided {
			continue
		}
		if o.Status == StOpen {
			isKnown := false
			for _, k := range known {
				if k.Status == "known" && k.Property == r.Prop && k.Key == o.Key {
					isKnown = true
					if !printed["K"+o.Key] {
						fmt.Printf("KNOWN-FINDING: property=%s %s — %s (%s)\n", r.Prop, o.Key, k.What, o.Pos)
						printed["K"+o.Key] = true
					}
				}
			}
			if isKnown {
				o.By = "known_findings.json"
				nKnown++
				continue
			}
		}
		h := sha1.Sum([]byte(o.Key))
		rp := filepath.Join(replayDir, fmt.Sprintf("%s-%x.json", r.Prop, h[:6]))
		b, _ := json.MarshalIndent(map[string]interface{}{
			"property": r.Prop, "obligation": o,
			"how_to_replay": fmt.Sprintf("bin/dhcpverif check %s --explain %q", r.Prop, o.Key),
		}, "", " ")
		os.WriteFile(rp, b, 0o644)
		if printed[o.Key+string(o.Status)] {
			continue
		}
		printed[o.Key+string(o.Status)] = true
		if o.Status == StOpen {
			nViol++
			fmt.Printf("VIOLATION property=%s replay=%s\n    rule=%s at %s\n    %s\n    %s\n", r.Prop, rp, o.Rule, o.Pos, o.Key, o.Detail)
		} else {
			nUndec++
			fmt.Printf("VIOLATION property=%s replay=%s\n    UNDECIDED rule=%s at %s\n    %s\n    %s\n", r.Prop, rp, o.Rule, o.Pos, o.Key, o.Detail)
		}
		exit = 1
	}
	r.writeEvidence(verifDir, seed, nViol, nUndec, nKnown)
	nOK := 0
	for _, o := range r.Obls {
		if o.Status == StOK || o.Status == StLedger {
			nOK++
		}
	}
	fmt.Printf("property=%s tier=%s obligations=%d closed=%d violations=%d undecided=%d known=%d wall=%.1fs\n",
		r.Prop, r.Tier, len(r.Obls), nOK, nViol, nUndec, nKnown, time.Since(r.start).Seconds())
	return exit
}

func (r *Report) writeEvidence(verifDir string, seed int64, nViol, nUndec, nKnown int) {
	byRule := map[string]int{}
	byDischarge := map[string]int{}
	nontriv := map[string]bool{}
	closed := 0
	ledger := 0
	var ledgerAssumed []string
	for _, o := range r.Obls {
		byRule[o.Rule]++
		if o.Status == StOK || o.Status == StLedger {
			closed++
			byDischarge[o.By]++
		}
		if o.Status == StLedger {
			ledger++
			if strings.Contains(o.By, "no machine-checked fact") {
				ledgerAssumed = append(ledgerAssumed, o.Key)
			}
		}
		if !o.Trivial {
			nontriv[o.Key] = true
		}
	}
	// samples: up to 12, spread over rules, prefer non-trivial
	var samples []Obligation
	perRule := map[string]int{}
	for _, o := range r.Obls {
		if o.Trivial || perRule[o.Rule] >= 2 || len(samples) >= 14 {
			continue
		}
		perRule[o.Rule]++
		samples = append(samples, o)
	}
	if len(samples) == 0 && len(r.Obls) > 0 {
		samples = append(samples, r.Obls[0])
	}
	expl := "Static analysis of /repo's working tree (go/packages + go/ssa + VTA). Decides: " + strings.Join(r.Decides, "; ") +
		". Does NOT decide: " + strings.Join(r.NotDecided, "; ") + "."
	cov := map[string]interface{}{
		"explanation":         expl,
		"evaluations":         len(r.Obls),
		"distinct_nontrivial": len(nontriv),
		"rule":                "one obligation per (clause, function, construct) enumerated from the SSA of the current tree; non-trivial = needed more than a constant-index/whole-slice discharge",
		"samples":             samples,
		"obligations":         len(r.Obls),
		"discharged":          closed,
		"ledger_entries":      ledger,
		"ledger_assumptions":  len(ledgerAssumed),
		"ledger_assumed_keys": ledgerAssumed,
		"open":                nViol,
		"undecided":           nUndec,
		"known_findings":      nKnown,
		"by_rule":             byRule,
		"by_discharge":        byDischarge,
		"instances":           r.Instances,
		"instances_min":       r.MinInst,
		"build_configs":       r.Configs,
		"checker_cmd":         "bin/dhcpverif check " + r.Prop + " --tier " + r.Tier,
		"trusted_base":        []string{"go/types, go/ssa, callgraph/vta of golang.org/x/tools v0.29.0", "Go toolchain (build constraints, prove pass for bounds-check discharge)", "hand-written uio.Lexer and stdlib models (checker/models.go)", "spec tables under /verif/spec (my reading of the RFCs)"},
		"exhaustive":          false,
	}
	for k, v := range r.Extra {
		cov[k] = v
	}
	ev := map[string]interface{}{
		"property_id": r.Prop,
		"tier":        r.Tier,
		"seed":        seed,
		"level":       "other",
		"coverage":    cov,
		"assumptions": append([]string{}, r.Assumptions...),
		"wall_s":      time.Since(r.start).Seconds(),
		"violations":  nViol + nUndec,
	}
	b, _ := json.MarshalIndent(ev, "", " ")
	os.MkdirAll(filepath.Join(verifDir, "evidence"), 0o755)
	os.WriteFile(filepath.Join(verifDir, "evidence", r.Prop+".json"), b, 0o644)
}
