// Copyright 2024 The Go Authors. All rights reserved.
// Use of this source code is governed by a BSD-style
// license that can be found in the LICENSE file.

package aliases

import (
	"go/ast"
	"go/parser"
	"go/token"
	"go/types"
)

// Rhs returns the type on the right-hand side of the alias declaration.
func Rhs(alias *types.Alias) types.Type {
	if alias, ok := any(alias).(interface{ Rhs() types.Type }); ok {
		return alias.Rhs() // go1.23+
	}

	// go1.22's Alias didn't have the Rhs method,
	// so Unalias is the best we can do.
	return types.Unalias(alias)
}

// TypeParams returns the type parameter list of the alias.
func TypeParams(alias *types.Alias) *types.TypeParamList {
	if alias, ok := any(alias).(interface{ TypeParams() *types.TypeParamList }); ok {
		return alias.TypeParams() // go1.23+
	}
	return nil
}

// SetTypeParams sets the type parameters of the alias type.
func SetTypeParams(alias *types.Alias, tparams []*types.TypeParam) {
	if alias, ok := any(alias).(interface {
		SetTypeParams(tparams []*types.TypeParam)
	}); ok {
		alias.SetTypeParams(tparams) // go1.23+
	} else if len(tparams) > 0 {
		panic("cannot set type parameters of an Alias type in go1.22")
	}
}

// TypeArgs returns the type arguments used to instantiate the Alias type.
func TypeArgs(alias *types.Alias) *types.TypeList {
	if alias, ok := any(alias).(interface{ TypeArgs() *types.TypeList }); ok {
		return alias.TypeArgs() // go1.23+
	}
	return nil // empty (go1.22)
}

// Origin returns the generic Alias type of which alias is an instance.
// If alias is not an instance of a generic alias, Origin returns alias.
func Origin(alias *types.Alias) *types.Alias {
	if alias, ok := any(alias).(interface{ Origin() *types.Alias }); ok {
		return alias.Origin() // go1.23+
	}
	return alias // not an instance of a generic alias (go1.22)
}

// Enabled reports whether [NewAlias] should create [types.Alias] types.
//
// This function is expensive! Call it sparingly.
func Enabled() bool {
	// The only reliable way to compute the answer is to invoke go/types.
	// We don't parse the GODEBUG environment variable, because
	// (a) it's tricky to do so in a manner that is consistent
	//     with the godebug package; in particular, a simple
	//     substring check is not good enough. The value is a
	//     rightmost-wins list of options. But more importantly:
	// (b) it is impossible to detect changes to the effective
	//     setting caused by os.Setenv("GODEBUG"), as happens in
	//     many tests. Therefore any attempt to cache the result
	//     is just incorrect.
	fset := token.NewFileSet()
	f, _ := parser.ParseFile(fset, "a.go", "package p; type A = int", parser.SkipObjectResolution)
	pkg, _ := new(types.Config).Check("p", fset, []*ast.File{f}, nil)
	_, enabled := pkg.Scope().Lookup("A").Type().(*types.Alias)
	return enabled
}
