package main

// C06 — decode→encode→decode fixpoint: losslessness of the internal representation.

import (
	"fmt"
	"go/types"
	"strings"

	"golang.org/x/tools/go/ssa"
)

func init() { register("C06", true, checkC06) }

func checkC06(c *Ctx) {
	e1CheckConstants(c, "C06-K4", []string{"dhcpv6.", "dhcpv4.", "iana."}, 400)
	byteOrderRule(c, "C06-K7", []string{"dhcpv4", "dhcpv6", "iana", "rfc1035label"}, 50)
	r := c.R
	r.Decides = append(r.Decides,
		"K12 the explicit rejections and conditional field stores of every DHCPv4/DHCPv6 decoder equal the reviewed census (E8, shared C05-K11)",
		"K11 the message a top-level decoder is building is never a call argument before it is returned (shared C01-K7/C04-K9/C05-K12)",
		"K10 the messages the four top-level decoders return share no memory with the datagram (E3 retention, shared C08-K1): what a second encode emits cannot depend on the caller's receive buffer",
		"K9 no decoder method rewrites what it has decoded through a step that sees none of the input (a call after the first read that receives the receiver or a value loaded from it, nothing derived from the input, and writes memory reachable from it: de-duplicating, sorting, trimming a decoded list)",
		"K1 every decoder slot lands in a field the encoder writes back from, with the same width and an inverse transform (shared with C01-K1/C02-K2: wire-schema symmetry), except the allowed normalisations",
		"K2 every decode transform is injective on the wire domain or range-guarded: net.CIDRMask(x, bits) applied to a wire value is dominated by x <= bits (else the decoder returns an error); contradiction rule across siblings (dhcpv4 Route guards its mask length)",
		"K3 label sets keep and re-emit their original bytes while unmodified (shared with C19-K1)",
		"K4 the DHCPv4 option encoder emits at least one instance for every stored code other than Pad/End, also for empty and nil values (a decoded zero-length option survives re-encoding)",
		"K5 length-field narrowing: every uint16(len(x))/uint8(len(x)) written as a length is the length of raw field bytes or of a nested encoding whose encoder closure does not pad (an expanding nested encoder overflows the field for large accepted datagrams)")
	r.NotDecided = append(r.NotDecided, "the fixpoint itself for all accepted inputs (equality of runtime values); only slot/field/transform agreement and guardedness are structural")
	c06CIDR(c)
	c06Schema(c)
	// a decoded option is re-emitted under the code it was parsed under (shared with C02-K1)
	e1ParserTables(c, "C06-K6")
	c06Narrowing(c)
	// the value decoded for an option code is exactly the concatenation of the bytes consumed for it (shared C01-K4): a
	// decoder that stores views of the packet and appends later fragments in place rewrites neighbouring options
	c09Reassembly2(c, "C06-K8")
	decoderPostProcessing(c, "C06-K9")
	// what a decoder rejects and which fields it sets under which condition (E8) decides what the first decode keeps: a field
	// left nil or replaced under a new condition re-encodes to something else (shared C05-K11)
	e8CheckRejects(c, "C06-K12", func(n string) bool { return strings.Contains(n, "dhcpv6.") || strings.Contains(n, "dhcpv4.") }, 10)
	// a decoder that hands the half-built message to another function (late rewriting of decoded fields — Option Overload
	// applied by a method, merged header fields) decodes to something the encoder does not write back (shared C01-K7)
	decoderKeepsResult(c, "C06-K11", c.P.Func(modPath+"/dhcpv4.FromBytes"))
	decoderKeepsResult(c, "C06-K11", c.P.Func(modPath+"/dhcpv6.MessageFromBytes"))
	decoderKeepsResult(c, "C06-K11", c.P.Func(modPath+"/dhcpv6.RelayMessageFromBytes"))
	// decode→encode→decode compares the message the caller holds after the first decode: it shares no memory with the
	// datagram it was read from, so reusing the receive buffer cannot change what the second encode emits (shared C08-K1)
	for _, nm := range []string{"dhcpv6.FromBytes", "dhcpv6.MessageFromBytes", "dhcpv6.RelayMessageFromBytes", "dhcpv4.FromBytes"} {
		f := c.P.Func(modPath + "/" + nm)
		if f == nil {
			r.Undecided("C06-K10", nm, "-", "not found")
			continue
		}
		bad := false
		for _, x := range getE3(c).retentionFindings(f, 0) {
			bad = true
			if strings.HasPrefix(x.short, "UNDECIDED") {
				r.Undecided("C06-K10", nm+": "+x.short, x.pos, x.detail)
			} else {
				r.Violation("C06-K10", nm+": the decoded message aliases its input ("+x.short+")", x.pos, x.detail)
			}
		}
		if !bad {
			r.OK("C06-K10", nm+": the decoded message shares no memory with its input", c.P.pos(f.Pos()), "E3: flows(Pd/Pr(input)) = ∅", "")
		}
	}
}

// c06CIDR: K2
func c06CIDR(c *Ctx) {
	r, sx := c.R, c.Sx()
	funcs := decodeClosure(c)
	gc := newGuardCache(c)
	n := 0
	for _, f := range funcs {
		if inUio(f) {
			continue
		}
		ord := map[string]int{}
		allInstrs(f, func(in ssa.Instruction) {
			cl, ok := in.(*ssa.Call)
			if !ok || !isFuncCall(cl.Common(), "net", "CIDRMask") {
				return
			}
			n++
			bits, okb := intConst(cl.Call.Args[1])
			v := cl.Call.Args[0]
			for {
				if cv, ok := v.(*ssa.Convert); ok {
					v = cv.X
					continue
				}
				break
			}
			base := shortName(f) + ": CIDRMask(" + shortDesc(v, 3) + ", " + fmt.Sprint(bits) + ")"
			ord[base]++
			key := base
			if ord[base] > 1 {
				key = fmt.Sprintf("%s #%d", base, ord[base])
			}
			if k, isK := intConst(v); isK {
				r.Check(okb && k >= 0 && k <= bits, "C06-K2", key, c.P.ipos(cl), "constant prefix length in range", "constant prefix length out of range")
				return
			}
			vs := sx.Of(v).String()
			_, hi := gc.lenBounds(cl.Block(), func(y ssa.Value) bool {
				for {
					if cv, ok := y.(*ssa.Convert); ok {
						y = cv.X
						continue
					}
					break
				}
				return y == v || sx.Of(y).String() == vs
			})
			r.Check(okb && hi >= 0 && hi <= bits, "C06-K2", key, c.P.ipos(cl), fmt.Sprintf("dominating guard implies prefix length <= %d", hi),
				fmt.Sprintf("the wire value is not range-checked before net.CIDRMask(x, %d): for x > %d CIDRMask returns nil, the value re-encodes as prefix length 0 and the prefix is lost on the second pass (decode→encode→decode is not a fixpoint)", bits, bits))
		})
	}
	r.Count("C06-K2-CIDRMask-sites", n)
	r.Expect("C06-K2-CIDRMask-sites", 4)
	_ = strings.Contains
}

// c06Narrowing: K5 — a length written into a 16-bit (8-bit) length field is the length of bytes that
// cannot be longer than their wire form. For a decoded value every raw field was read from a datagram of
// at most 65535 bytes (and every 8-bit-counted field from an 8-bit count), so len(field) fits; a length of
// a NESTED ENCODING fits only if that encoding cannot be longer than what was decoded. An encoder that
// pads (bytes.Repeat) or re-splits (the DHCPv4 option splitter) is expanding: its output can exceed the
// decoded input, the narrowing conversion truncates the length and the bytes no longer decode.
func c06Narrowing(c *Ctx) {
	r, sx := c.R, c.Sx()
	var roots []*ssa.Function
	for _, f := range c.P.ModuleFuncs() {
		if f.Parent() != nil || f.Signature.Recv() == nil || (f.Name() != "ToBytes" && f.Name() != "Marshal") {
			continue
		}
		if pp := pkgPathOf(f); pp == modPath+"/dhcpv6" || pp == modPath+"/dhcpv4" {
			roots = append(roots, f)
		}
	}
	// expanding(f, excl): f's call closure, not entered through excl (the function holding the length
	// field: recursion through it is judged at its own site), contains a padding call
	expanding := func(f, excl *ssa.Function) string {
		res := ""
		seen := map[*ssa.Function]bool{excl: true}
		type wi struct{ g, from *ssa.Function }
		work := []wi{{f, nil}}
		parent := map[*ssa.Function]*ssa.Function{}
		var clo []*ssa.Function
		for len(work) > 0 {
			w := work[len(work)-1]
			work = work[:len(work)-1]
			g := w.g
			if g == nil || seen[g] || g.Blocks == nil || !(inModule(g) || isModuleWrapper(g)) {
				continue
			}
			seen[g] = true
			parent[g] = w.from
			clo = append(clo, g)
			allInstrs(g, func(in ssa.Instruction) {
				if ci, ok := in.(ssa.CallInstruction); ok {
					for _, h := range c.P.Callees(ci) {
						work = append(work, wi{h, g})
					}
				}
			})
		}
		sortFuncs(clo)
		for _, g := range clo {
			allInstrs(g, func(in ssa.Instruction) {
				if cl, ok := in.(*ssa.Call); ok && res == "" && isFuncCall(cl.Common(), "bytes", "Repeat") {
					// named by the encoder it belongs to (the padding may sit in a helper of that encoder)
					host := g
					for h := g; h != nil; h = parent[h] {
						if h.Signature.Recv() != nil && (h.Name() == "ToBytes" || h.Name() == "Marshal") {
							host = h
							break
						}
					}
					res = shortName(host) + " pads its output (bytes.Repeat at " + c.P.ipos(cl) + ")"
				}
			})
		}
		return res
	}
	n := 0
	for _, f := range closureOf(c.P, roots) {
		if inUio(f) || !inModule(f) {
			continue
		}
		ord := map[string]int{}
		allInstrs(f, func(in ssa.Instruction) {
			cl, ok := in.(*ssa.Call)
			if !ok || cl.Call.StaticCallee() == nil {
				return
			}
			fk := funcKey(cl.Call.StaticCallee())
			bits := 0
			switch {
			case strings.HasSuffix(fk, "uio.Lexer).Write16"):
				bits = 16
			case strings.HasSuffix(fk, "uio.Lexer).Write8"):
				bits = 8
			default:
				return
			}
			cv, ok := cl.Call.Args[1].(*ssa.Convert)
			if !ok {
				return
			}
			ln, ok := cv.X.(*ssa.Call)
			if !ok || !isBuiltinCall(ln.Common(), "len") {
				return
			}
			n++
			x := ln.Call.Args[0]
			base := fmt.Sprintf("%s: %d-bit length of %s", shortName(f), bits, shortDesc(x, 3))
			ord[base]++
			key := base
			if ord[base] > 1 {
				key = fmt.Sprintf("%s #%d", base, ord[base])
			}
			// nested encoding?
			var enc ssa.CallInstruction
			if xc, ok := x.(*ssa.Call); ok {
				name := ""
				if xc.Call.IsInvoke() {
					name = xc.Call.Method.Name()
				} else if sf := xc.Call.StaticCallee(); sf != nil {
					name = sf.Name()
				}
				if name == "ToBytes" || name == "Marshal" {
					enc = xc
				}
			}
			if enc != nil {
				what := "nested " + enc.Common().Value.Type().String() + " encoding"
				if enc.Common().IsInvoke() {
					what = "nested " + types.TypeString(enc.Common().Value.Type(), func(p *types.Package) string { return p.Name() }) + "." + enc.Common().Method.Name() + "() encoding"
				} else if sf := enc.Common().StaticCallee(); sf != nil {
					what = "nested " + shortName(sf) + "() encoding"
				}
				// identified by what is measured, not by the function hosting the write (the write may move into a helper)
				key = fmt.Sprintf("%d-bit length of a %s", bits, what)
			}
			if enc == nil {
				r.OK("C06-K5", key, c.P.ipos(cl), "raw field bytes: a decoded field is never longer than the datagram it was read from", sx.Of(x).String())
				return
			}
			for _, cal := range c.P.Callees(enc) {
				if why := expanding(cal, f); why != "" {
					r.Violation("C06-K5", key+" that can reach the padding encoder "+strings.SplitN(why, " pads", 2)[0], c.P.ipos(cl), fmt.Sprintf("in %s: the nested encoding can be longer than its wire form (reached through %s): for a large accepted datagram the %d-bit length is truncated by the narrowing conversion and the re-encoded bytes no longer decode", why, shortName(cal), bits))
					return
				}
			}
			r.OK("C06-K5", shortName(f)+": "+key, c.P.ipos(cl), "nested encoders are length-preserving (no padding in their closure)", "")
		})
	}
	r.Count("C06-K5-length-fields", n)
	r.Expect("C06-K5-length-fields", 6)
}
