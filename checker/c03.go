package main

import (
	"strings"

	"golang.org/x/tools/go/ssa"
)

func init() { register("C03", true, checkC03) }

// c03Roots: decode entry points, read-only methods/helpers of decoded values, the raw-frame reader.
func c03Roots(c *Ctx) []*ssa.Function {
	var roots []*ssa.Function
	for f := range decodeEntries(c.P) {
		roots = append(roots, f)
	}
	roots = append(roots, readOnlyMethods(c.P)...)
	roots = append(roots, readOnlyHelpers(c.P)...)
	for _, f := range c.P.ModuleFuncs() {
		pk := strings.TrimPrefix(pkgPathOf(f), modPath+"/")
		if pk == "dhcpv4/nclient4" && f.Name() == "ReadFrom" && recvNamed(f) != nil && recvNamed(f).Obj().Name() == "BroadcastRawUDPConn" {
			roots = append(roots, f)
		}
	}
	sortFuncs(roots)
	return roots
}

func checkC03(c *Ctx) {
	r := c.R
	r.Decides = append(r.Decides,
		"K1 in the call-graph closure of every decode entry point, every exported read-only method/helper of decoded values and the raw-frame reader, each panic-capable instruction (index, slice, slice-to-array, single-value type assertion, explicit panic, integer division, negative make/Lexer/Repeat size, nil-map store, use of a maybe-nil result) is closed by a discharge rule (D0 compiler prove pass, D1–D9) or a ledger entry whose guard facts are re-checked",
		"K2 termination: every loop in the closure is a range loop, a Lexer loop making progress, or a counter loop; recursion cycles belong to the frozen, argued set",
		"C09-K4 (shared) no encoder serialises the same sub-value (or the elements of the same collection) twice on one path: re-encoding is not exponential in the nesting depth")
	r.NotDecided = append(r.NotDecided, "nil dereference through pointer fields the decoders always set (assumed)", "panics inside external code called within its modelled contract",
		"stack exhaustion, out-of-memory", "data-dependent non-termination inside ledgered loops")
	e, err := newE4(c, "C03-K1")
	if err != nil {
		r.Undecided("C03-K1", "compiler diagnostics / ledger", "-", err.Error())
		return
	}
	roots := c03Roots(c)
	funcs := closureOf(c.P, roots)
	res := e.run(funcs)
	e4Nil(e, funcs, res)
	r.Count("C03-roots", len(roots))
	r.Expect("C03-roots", 350)
	r.Count("C03-closure-functions", len(funcs))
	r.Expect("C03-closure-functions", 500)
	r.Count("C03-bounds-sites", res.nBounds)
	r.Expect("C03-bounds-sites", 150)
	r.Count("C03-assert-sites", res.nAssert)
	r.Expect("C03-assert-sites", 10)
	r.Extra["compiler_unproven_bounds_checks_in_module"] = e.bce.total
	r.Extra["sites"] = map[string]int{"bounds": res.nBounds, "assert": res.nAssert, "panic": res.nPanic, "division": res.nDiv, "size": res.nSize, "mapstore": res.nNilMap, "maybe-nil-use": res.nNil}
	if rf := rawReadFrom(c); rf != nil {
		c18Reader(c, rf, "C03")
	}
	e7Loops(c, "C03-K2", funcs)
	fmtSelfRecursion(c, "C03-K2")
	// termination of the index-driven label decoder rests on its jump discipline (jumps do not nest, the saved position
	// lies ahead, accumulators capped): the ledger entry for that loop is backed by the cursor rules of C09-K1, evaluated here
	nJ := 0
	for _, f := range funcs {
		if inUio(f) {
			continue
		}
		for _, hdr := range loopHeaders(f) {
			nJ += c09Cursor(c, e, f, hdr, sccOf(hdr))
		}
	}
	r.Count("C03-K2-cursor-jump-sites", nJ)
	r.Expect("C03-K2-cursor-jump-sites", 1)
	// sizes, indices and shifts computed in int must not depend on int being 64 bits wide (negative sizes on GOARCH=386/arm)
	platformWidthRule(c, "C03-K3", []string{"dhcpv4", "dhcpv6", "iana", "rfc1035label", "dhcpv4/nclient4", "dhcpv6/nclient6", "dhcpv4/server4", "dhcpv6/server6", "dhcpv4/ztpv4", "dhcpv6/ztpv6", "netboot", "interfaces"})
	// "re-encoding returns normally": an encoder that serialises a sub-value twice per nesting level does not
	// return in any useful time for a deeply nested accepted datagram (shared with C09-K4)
	c09Encoders(c)
	r.Assume("pointer fields of decoded structures are non-nil unless the decoder has a path leaving them nil")
	r.Assume("uio.Lexer methods stay within bounds for non-negative sizes (sticky error instead of slicing out of range)")
}
