#!/bin/sh
# usage: check.sh <Cxx> <quick|thorough> [extra args]
# Builds the analyser if needed and runs one property check against /repo's
# current working tree. Exit 0 = held, 1 = VIOLATION/UNDECIDED printed.
set -u
cd "$(dirname "$0")" || exit 2
export GOFLAGS=-mod=mod GOPROXY=off GOSUMDB=off GOTOOLCHAIN=local GOWORK=off
if [ ! -x bin/dhcpverif ] || [ -n "$(find checker -newer bin/dhcpverif -name '*.go' 2>/dev/null | head -1)" ]; then
  mkdir -p bin
  (cd checker && go build -o ../bin/dhcpverif .) || { echo "ERROR: cannot build analyser"; exit 2; }
fi
id="$1"; tier="${2:-quick}"; shift; shift 2>/dev/null || true
exec bin/dhcpverif check "$id" --tier "$tier" --repo "${VERIF_REPO:-/repo}" --verif "$(pwd)" "$@"
