package main

import (
	"encoding/json"
	"fmt"
	"os"
	"sort"
	"strings"

	"golang.org/x/tools/go/ssa"
)

type builderTarget struct {
	name  string
	fn    *ssa.Function
	kind  string // recipe | modifier | builder | exchange
	props []string
}

// builderTargets: the functions whose recipes/effects are compared with spec/builders.json
func builderTargets(c *Ctx) []builderTarget {
	var out []builderTarget
	add := func(f *ssa.Function, kind string, props ...string) {
		if f != nil {
			out = append(out, builderTarget{shortName(f), f, kind, props})
		}
	}
	v4, v6 := modPath+"/dhcpv4", modPath+"/dhcpv6"
	for _, n := range []string{"NewDiscovery", "NewInform", "NewRequestFromOffer", "NewRenewFromAck", "NewReplyFromRequest", "NewReleaseFromACK"} {
		add(c.P.Func(v4+"."+n), "recipe", "C15", "C13")
	}
	for _, n := range []string{"New", "newDHCPv4", "PrependModifiers"} {
		add(c.P.Func(v4+"."+n), "builder", "C15")
	}
	// modifier closures of dhcpv4
	for _, f := range c.P.ModuleFuncs() {
		if pkgPathOf(f) == v4 && f.Parent() != nil && f.Parent().Parent() == nil && strings.HasPrefix(f.Parent().Name(), "With") && len(f.Params) == 1 && namedIs(f.Params[0].Type(), v4, "DHCPv4") {
			add(f, "modifier", "C15")
		}
	}
	for _, n := range []string{"NewAdvertiseFromSolicit", "NewRequestFromAdvertise", "NewReplyFromMessage", "EncapsulateRelay", "DecapsulateRelay", "DecapsulateRelayIndex", "NewRelayReplFromRelayForw"} {
		props := []string{"C16"}
		if n == "NewRequestFromAdvertise" {
			props = append(props, "C13")
		}
		add(c.P.Func(v6+"."+n), "builder", props...)
	}
	for _, f := range c.P.MethodsNamed("GetInnerMessage") {
		add(f, "builder", "C16")
	}
	// exchange steps
	for _, f := range c.P.ModuleFuncs() {
		pk := strings.TrimPrefix(pkgPathOf(f), modPath+"/")
		if f.Parent() != nil || recvNamed(f) == nil || recvNamed(f).Obj().Name() != "Client" {
			continue
		}
		switch pk {
		case "dhcpv4/nclient4":
			switch f.Name() {
			case "DiscoverOffer", "Request", "RequestFromOffer", "Inform", "Renew", "Release":
				add(f, "exchange", "C13")
			}
		case "dhcpv6/nclient6":
			switch f.Name() {
			case "Solicit", "RapidSolicit", "Request":
				add(f, "exchange", "C13")
			}
		}
	}
	// matchers
	for _, pk := range []string{"dhcpv4/nclient4", "dhcpv6/nclient6"} {
		for _, f := range c.P.ModuleFuncs() {
			if strings.TrimPrefix(pkgPathOf(f), modPath+"/") == pk && f.Parent() != nil && (strings.HasPrefix(f.Parent().Name(), "Is")) {
				add(f, "matcher", "C13")
			}
		}
	}
	sort.Slice(out, func(i, j int) bool { return out[i].name < out[j].name })
	return out
}

func fingerprintOf(c *Ctx, t builderTarget) []string {
	// delegation transparency at function level: a builder that only hands its arguments to a sibling is the sibling's
	// fingerprint with the sibling's parameters replaced by what is handed in
	if t.kind != "recipe" && t.kind != "modifier" && t.kind != "matcher" {
		if inner := delegationOf(t.fn); inner != nil && inner.Call.StaticCallee().Signature.Recv() == nil {
			g := inner.Call.StaticCallee()
			e := newE6(c, t.fn)
			e.allCalls = true
			m := map[string]string{}
			for i, p := range g.Params {
				if i < len(inner.Call.Args) {
					m[p.Name()] = e.argDesc(inner.Call.Args[i])
				}
			}
			lines := fingerprintOf(c, builderTarget{name: t.name, fn: g, kind: t.kind})
			out := make([]string, len(lines))
			for i, l := range lines {
				out[i] = e6SubstParams(l, m)
			}
			return out
		}
	}
	switch t.kind {
	case "recipe":
		lines, why := e6Recipe(c, t.fn)
		if why != "" {
			lines = append(lines, "UNRECOGNISED: "+why)
		}
		return lines
	case "modifier":
		d := t.fn.Params[0]
		return e6Fingerprint(c, t.fn, func(v ssa.Value) bool { return v == ssa.Value(d) })
	case "matcher":
		return e6FingerprintX(c, t.fn, func(v ssa.Value) bool { return false }, true)
	case "exchange":
		objs := resultObjects(t.fn)
		return e6FingerprintX(c, t.fn, func(v ssa.Value) bool { return objs[v] }, true)
	default:
		objs := resultObjects(t.fn)
		return e6FingerprintX(c, t.fn, func(v ssa.Value) bool { return objs[v] }, true)
	}
}

func cmdBuilders(args []string) int {
	repo := "/repo"
	if len(args) > 0 {
		repo = args[0]
	}
	p, err := Load(repo, BuildConfig{"linux", "amd64"}, true)
	if err != nil {
		fmt.Fprintln(os.Stderr, err)
		return 2
	}
	c := &Ctx{P: p, R: NewReport("builders", "quick"), Verif: "/verif"}
	out := map[string]interface{}{}
	params := map[string][]string{}
	for _, t := range builderTargets(c) {
		out[t.name] = fingerprintOf(c, t)
		params[t.name] = e6Names(t.fn)
	}
	out["__params__"] = params
	b, _ := json.MarshalIndent(out, "", " ")
	fmt.Println(string(b))
	return 0
}

// e6CheckProp runs the comparison for every target tagged with the property.
func e6CheckProp(c *Ctx, rule, prop string, min int) {
	r := c.R
	rows, err := loadBuilders(c.Verif)
	if err != nil {
		r.Undecided(rule, "spec/builders.json", "-", err.Error())
		return
	}
	n := 0
	seen := map[string]bool{}
	for _, t := range builderTargets(c) {
		has := false
		for _, p := range t.props {
			if p == prop {
				has = true
			}
		}
		if !has {
			continue
		}
		n++
		seen[t.name] = true
		e6Check(c, rule, t.name, c.P.pos(t.fn.Pos()), fingerprintOf(c, t), rows, e6Names(t.fn))
	}
	r.Count(rule+"-functions", n)
	r.Expect(rule+"-functions", min)
}
