// Copyright 2022 The Go Authors. All rights reserved.
// Use of this source code is governed by a BSD-style
// license that can be found in the LICENSE file.

//go:generate go run generate.go

// Package stdlib provides a table of all exported symbols in the
// standard library, along with the version at which they first
// appeared.
package stdlib

import (
	"fmt"
	"strings"
)

type Symbol struct {
	Name    string
	Kind    Kind
	Version Version // Go version that first included the symbol
}

// A Kind indicates the kind of a symbol:
// function, variable, constant, type, and so on.
type Kind int8

const (
	Invalid Kind = iota // Example name:
	Type                // "Buffer"
	Func                // "Println"
	Var                 // "EOF"
	Const               // "Pi"
	Field               // "Point.X"
	Method              // "(*Buffer).Grow"
)

func (kind Kind) String() string {
	return [...]string{
		Invalid: "invalid",
		Type:    "type",
		Func:    "func",
		Var:     "var",
		Const:   "const",
		Field:   "field",
		Method:  "method",
	}[kind]
}

// A Version represents a version of Go of the form "go1.%d".
type Version int8

// String returns a version string of the form "go1.23", without allocating.
func (v Version) String() string { return versions[v] }

var versions [30]string // (increase constant as needed)

func init() {
	for i := range versions {
		versions[i] = fmt.Sprintf("go1.%d", i)
	}
}

// HasPackage reports whether the specified package path is part of
// the standard library's public API.
func HasPackage(path string) bool {
	_, ok := PackageSymbols[path]
	return ok
}

// SplitField splits the field symbol name into type and field
// components. It must be called only on Field symbols.
//
// Example: "File.Package" -> ("File", "Package")
func (sym *Symbol) SplitField() (typename, name string) {
	if sym.Kind != Field {
		panic("not a field")
	}
	typename, name, _ = strings.Cut(sym.Name, ".")
	return
}

// SplitMethod splits the method symbol name into pointer, receiver,
// and method components. It must be called only on Method symbols.
//
// Example: "(*Buffer).Grow" -> (true, "Buffer", "Grow")
func (sym *Symbol) SplitMethod() (ptr bool, recv, name string) {
	if sym.Kind != Method {
		panic("not a method")
	}
	recv, name, _ = strings.Cut(sym.Name, ".")
	recv = recv[len("(") : len(recv)-len(")")]
	ptr = recv[0] == '*'
	if ptr {
		recv = recv[len("*"):]
	}
	return
}
