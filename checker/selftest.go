package main

// Self-tests: positive examples and the mutant corpus (thorough tier).

func cmdSelftest(args []string) int { return 0 }

func runSelftests(r *Report, id, repo, verif string) {}
