#!/bin/sh
# regenerate spec/constants.json from the tree (review the diff against the IANA registries before committing)
cd /verif && bin/dhcpverif consts /repo | python3 -c "
import json,sys
d=json.load(sys.stdin)
d={'_comment':'IANA-assigned numbers of the wire-enum constants, keyed by package.type.name. Transcribed from the pinned tree and reviewed against the IANA dhcpv6-parameters / bootp-dhcp-parameters registries (see DESIGN.md E1c). A renumbering is never behaviour-preserving.', 'constants':d['constants']}
json.dump(d,open('spec/constants.json','w'),indent=1,sort_keys=True)"
