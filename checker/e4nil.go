package main

// E4 nil rules (D8) and E7 loop audit.

import (
	"fmt"
	"go/constant"
	"go/token"
	"go/types"
	"os"
	"strings"

	"golang.org/x/tools/go/ssa"
)

func isNilConst(v ssa.Value) bool {
	k, ok := v.(*ssa.Const)
	return ok && k.Value == nil
}

func nilable(t types.Type) bool {
	switch t.Underlying().(type) {
	case *types.Pointer, *types.Interface:
		return true
	}
	return false
}

// mayReturnNilOK: result idx of f can be nil on a path whose error result (if any) is nil.
func mayReturnNilOK(f *ssa.Function, idx int) bool {
	if f.Blocks == nil {
		return false
	}
	res := f.Signature.Results()
	errIdx := -1
	for i := 0; i < res.Len(); i++ {
		if isErrorType(res.At(i).Type()) {
			errIdx = i
		}
	}
	for _, r := range returnsOf(f) {
		if idx >= len(r.Results) {
			continue
		}
		v := r.Results[idx]
		nilRes := isNilConst(v)
		if ph, ok := v.(*ssa.Phi); ok {
			for _, e := range ph.Edges {
				if isNilConst(e) {
					nilRes = true
				}
			}
		}
		// a nil produced by a callee that may itself return nil
		if cl, ok := v.(*ssa.Call); ok {
			if g := cl.Call.StaticCallee(); g != nil && g != f && g.Signature.Results().Len() == 1 && mayReturnNilOKDepth(g, 0, 1) && !nilGuarded(r, v) {
				nilRes = true
			}
		}
		if !nilRes {
			continue
		}
		if errIdx < 0 || errIdx == idx {
			return true
		}
		if isNilConst(r.Results[errIdx]) {
			return true
		}
	}
	return false
}

// mayReturnNilWithErr: result idx of f is nil on some return whose error result is not the nil constant
func mayReturnNilWithErr(f *ssa.Function, idx int) bool {
	if f.Blocks == nil {
		return false
	}
	n := f.Signature.Results().Len()
	for _, r := range returnsOf(f) {
		if idx >= len(r.Results) || len(r.Results) != n {
			continue
		}
		if isNilConst(r.Results[n-1]) {
			continue
		}
		v := r.Results[idx]
		if isNilConst(v) {
			return true
		}
		if ph, ok := v.(*ssa.Phi); ok {
			for _, e := range ph.Edges {
				if isNilConst(e) {
					return true
				}
			}
		}
	}
	return false
}

func mayReturnNilOKDepth(f *ssa.Function, idx, depth int) bool {
	if depth > 3 {
		return false
	}
	return mayReturnNilOK(f, idx)
}

// derefUses: instructions that dereference v (field access, load, invoke, call of a
// pointer-receiver method that is not nil-safe).
func derefUses(v ssa.Value) []ssa.Instruction {
	var out []ssa.Instruction
	seen := map[ssa.Value]bool{}
	var visit func(x ssa.Value)
	visit = func(x ssa.Value) {
		if seen[x] {
			return
		}
		seen[x] = true
		for _, ref := range *x.Referrers() {
			switch u := ref.(type) {
			case *ssa.FieldAddr:
				if u.X == x {
					out = append(out, u)
				}
			case *ssa.Field:
			case *ssa.UnOp:
				if u.Op == token.MUL && u.X == x {
					out = append(out, u)
				}
			case *ssa.Call:
				cc := u.Common()
				if cc.IsInvoke() && cc.Value == x {
					out = append(out, u)
				} else if f := cc.StaticCallee(); f != nil && f.Signature.Recv() != nil && len(cc.Args) > 0 && cc.Args[0] == x {
					if _, isPtr := f.Signature.Recv().Type().(*types.Pointer); isPtr && f.Blocks != nil && methodDerefsRecv(f) {
						out = append(out, u)
					}
				}
			case *ssa.TypeAssert:
				if !u.CommaOk && u.X == x {
					// asserting a nil interface panics; counted by the assert rule unless discharged there
				}
			case *ssa.ChangeInterface, *ssa.ChangeType:
				visit(ref.(ssa.Value))
			case *ssa.MakeInterface:
				// boxing a nil pointer gives a non-nil interface whose methods then deref: follow
				visit(u)
			}
		}
	}
	visit(v)
	return out
}

var derefCache = map[*ssa.Function]bool{}

// methodDerefsRecv: the method dereferences its pointer receiver without checking it for nil first.
func methodDerefsRecv(f *ssa.Function) bool {
	if v, ok := derefCache[f]; ok {
		return v
	}
	derefCache[f] = true
	if len(f.Params) == 0 {
		return false
	}
	res := paramDerefsStatic(f, 0, 0)
	derefCache[f] = res
	return res
}

// paramDerefsStatic: parameter i of f is dereferenced without a nil check, in f or in a statically called
// module function it is handed to (as receiver or argument)
func paramDerefsStatic(f *ssa.Function, i, depth int) bool {
	if f.Blocks == nil || i >= len(f.Params) || depth > 3 {
		return false
	}
	r := f.Params[i]
	for _, ref := range *r.Referrers() {
		switch u := ref.(type) {
		case *ssa.FieldAddr:
			if u.X == r && !nilGuarded(u, r) {
				return true
			}
		case *ssa.UnOp:
			if u.Op == token.MUL && u.X == r && !nilGuarded(u, r) {
				return true
			}
		case *ssa.Call:
			g := u.Call.StaticCallee()
			if g == nil || g == f || !inModule(g) || nilGuarded(u, r) {
				continue
			}
			for j, a := range u.Call.Args {
				if a != r {
					continue
				}
				if j == 0 && g.Signature.Recv() != nil {
					if _, isPtr := g.Signature.Recv().Type().(*types.Pointer); !isPtr {
						continue
					}
				}
				if paramDerefsStatic(g, j, depth+1) {
					return true
				}
			}
		}
	}
	return false
}

// nilGuarded: instruction `in` is only reachable through an edge on which v != nil
func nilGuarded(in ssa.Instruction, v ssa.Value) bool {
	return nilGuardedBlock(in.Parent(), in.Block(), v) || nilGuardedByCorrelation(in, v)
}

func nilGuardedBlock(fn *ssa.Function, target *ssa.BasicBlock, v ssa.Value) bool {
	for _, b := range fn.Blocks {
		iff := ifOf(b)
		if iff == nil {
			continue
		}
		_, nn, ok := nilEdgesOf(iff, func(x ssa.Value) bool { return sameNilSubject(x, v) })
		if ok && mustPassEdges(fn, target, nn) {
			return true
		}
	}
	return false
}

// emptinessEdgesOf: when iff tests whether w (a string, slice, map, pointer or interface) is empty — w == nil, w == "",
// len(w) == 0 and their negations and orderings against 0 — the edge on which w is non-empty and the edge on which it is
// empty
func emptinessEdgesOf(iff *ssa.If, w ssa.Value) (nonEmpty, empty Edge, ok bool) {
	t, f := Edge{iff.Block(), iff.Block().Succs[0]}, Edge{iff.Block(), iff.Block().Succs[1]}
	if nl, nn, ok := nilEdgesOf(iff, func(x ssa.Value) bool { return x == w }); ok {
		return nn, nl, true
	}
	bo, isBin := iff.Cond.(*ssa.BinOp)
	if !isBin {
		return
	}
	isLenW := func(x ssa.Value) bool {
		cl, ok := x.(*ssa.Call)
		return ok && isBuiltinCall(cl.Common(), "len") && cl.Call.Args[0] == w
	}
	isZero := func(x ssa.Value) bool { k, ok := intConst(x); return ok && k == 0 }
	isEmptyStr := func(x ssa.Value) bool {
		k, ok := x.(*ssa.Const)
		return ok && k.Value != nil && k.Value.Kind() == constant.String && constant.StringVal(k.Value) == ""
	}
	switch {
	case (isLenW(bo.X) && isZero(bo.Y)) || (bo.X == w && isEmptyStr(bo.Y)):
		switch bo.Op {
		case token.EQL, token.LEQ:
			return f, t, true
		case token.NEQ, token.GTR:
			return t, f, true
		}
	case (isLenW(bo.Y) && isZero(bo.X)) || (bo.Y == w && isEmptyStr(bo.X)):
		switch bo.Op {
		case token.EQL, token.GEQ:
			return f, t, true
		case token.NEQ, token.LSS:
			return t, f, true
		}
	}
	return
}

// nilGuardedByCorrelation: the dereference is guarded through a second variable.
//
//	var u string
//	if v != nil { u = v.f() }
//	if len(u) == 0 { return }
//	v.g()
//
// A merge block M (not on a cycle, dominating the use) holds a φ w whose incoming value is the empty constant ("" or
// nil) on some edges; the use is reachable only through an edge on which w is known non-empty, so M was entered through
// one of the other edges; every one of those predecessors lies behind the non-nil edge of a test of v.
func nilGuardedByCorrelation(in ssa.Instruction, v ssa.Value) bool {
	fn := in.Parent()
	emptyConst := func(x ssa.Value) bool {
		k, ok := x.(*ssa.Const)
		if !ok {
			return false
		}
		if k.Value == nil {
			return true
		}
		return k.Value.Kind() == constant.String && constant.StringVal(k.Value) == ""
	}
	nonEmptyEdge := func(iff *ssa.If, w ssa.Value) (Edge, bool) {
		ne, _, ok := emptinessEdgesOf(iff, w)
		return ne, ok
	}
	for _, m := range fn.Blocks {
		if len(m.Preds) < 2 || !(m == in.Block() || m.Dominates(in.Block())) || inCycle(m) {
			continue
		}
		for _, mi := range m.Instrs {
			w, ok := mi.(*ssa.Phi)
			if !ok {
				break
			}
			if ssa.Value(w) == v {
				continue
			}
			nEmpty := 0
			for _, ed := range w.Edges {
				if emptyConst(ed) {
					nEmpty++
				}
			}
			if nEmpty == 0 || nEmpty == len(w.Edges) {
				continue
			}
			guarded := false
			for _, b := range fn.Blocks {
				if iff := ifOf(b); iff != nil && (m == b || m.Dominates(b)) {
					if e, ok := nonEmptyEdge(iff, w); ok && mustPassEdges(fn, in.Block(), e) {
						guarded = true
					}
				}
			}
			if !guarded {
				continue
			}
			all := true
			for i, ed := range w.Edges {
				if emptyConst(ed) {
					continue
				}
				if !nilGuardedBlock(fn, m.Preds[i], v) {
					all = false
				}
			}
			if all {
				return true
			}
		}
	}
	return false
}

// sameNilSubject: x is v, or both are loads of the same field of the same base / same symbolic value
func sameNilSubject(x, v ssa.Value) bool {
	if x == v {
		return true
	}
	strip := func(a ssa.Value) ssa.Value {
		for {
			switch t := a.(type) {
			case *ssa.MakeInterface:
				a = t.X
			case *ssa.ChangeInterface:
				a = t.X
			case *ssa.ChangeType:
				a = t.X
			default:
				return a
			}
		}
	}
	x, v = strip(x), strip(v)
	if x == v {
		return true
	}
	ux, ok1 := x.(*ssa.UnOp)
	uv, ok2 := v.(*ssa.UnOp)
	if ok1 && ok2 && ux.Op == token.MUL && uv.Op == token.MUL {
		fx, ok3 := ux.X.(*ssa.FieldAddr)
		fv, ok4 := uv.X.(*ssa.FieldAddr)
		if ok3 && ok4 && fx.Field == fv.Field && fx.X == fv.X {
			return true
		}
	}
	return false
}

func e4Nil(e *e4Engine, funcs []*ssa.Function, res *e4Result) {
	c := e.c
	inClosure := map[*ssa.Function]bool{}
	for _, f := range funcs {
		inClosure[f] = true
	}
	// (a) results of in-module calls that may be nil without an error
	for _, f := range funcs {
		if inUio(f) {
			continue
		}
		ord := map[string]int{}
		allInstrs(f, func(in ssa.Instruction) {
			cl, ok := in.(*ssa.Call)
			if !ok {
				return
			}
			var cands []*ssa.Function
			if sf := cl.Call.StaticCallee(); sf != nil {
				cands = []*ssa.Function{sf}
			} else if cl.Call.IsInvoke() {
				cands = c.P.Callees(cl)
			}
			nres := cl.Call.Signature().Results().Len()
			for idx := 0; idx < nres; idx++ {
				rt := cl.Call.Signature().Results().At(idx).Type()
				if !nilable(rt) || isErrorType(rt) {
					continue
				}
				may := false
				var who *ssa.Function
				for _, g := range cands {
					if inModule(g) && mayReturnNilOK(g, idx) {
						may, who = true, g
					}
				}
				if !may {
					continue
				}
				var v ssa.Value = cl
				if nres > 1 {
					ex := extractOf(cl, idx)
					if ex == nil {
						continue
					}
					v = ex
				}
				for _, use := range append(derefUses(v), argDerefUses(c.P, v)...) {
					res.nNil++
					key := e.descr(use, "nil-use", "result of "+shortName(who)+" used by "+useDesc(use), ord)
					if nilGuarded(use, v) {
						e.close(use, key, "D8 compared with nil on a dominating edge", "", false)
					} else {
						e.open(use, key, shortName(who)+" can return nil without an error; the result is dereferenced here without a nil check")
					}
				}
				// a maybe-nil POINTER boxed into an interface is a non-nil interface holding a nil pointer: a later
				// `!= nil` test of the interface passes and the first method call through it dereferences nil
				if _, isPtr := rt.Underlying().(*types.Pointer); isPtr {
					if refs := v.Referrers(); refs != nil {
						for _, ref := range *refs {
							mi, ok := ref.(*ssa.MakeInterface)
							if !ok {
								continue
							}
							res.nNil++
							key := e.descr(mi, "nil-box", "result of "+shortName(who)+" converted to "+types.TypeString(mi.Type(), shortQual), ord)
							if nilGuarded(mi, v) {
								e.close(mi, key, "D8 compared with nil on a dominating edge", "", false)
							} else {
								e.open(mi, key, shortName(who)+" can return a nil pointer; converting it to an interface here yields a non-nil interface around nil (a later nil test passes, the first method call panics)")
							}
						}
					}
				}
			}
		})
	}
	// (a') a result used although the error returned beside it was dropped: on the error path the value is the
	// callee's nil (a stated belief "cannot fail" contradicted by the callee having an error path returning nil)
	for _, f := range funcs {
		if inUio(f) {
			continue
		}
		ord := map[string]int{}
		allInstrs(f, func(in ssa.Instruction) {
			cl, ok := in.(*ssa.Call)
			if !ok {
				return
			}
			sig := cl.Call.Signature()
			nres := sig.Results().Len()
			if nres < 2 || !isErrorType(sig.Results().At(nres-1).Type()) {
				return
			}
			if ex := extractOf(cl, nres-1); ex != nil && ex.Referrers() != nil && len(*ex.Referrers()) > 0 {
				return // the error is looked at
			}
			if os.Getenv("DHCPVERIF_NILDEBUG") != "" {
				fmt.Fprintf(os.Stderr, "dropped-error call in %s: %s cands=%d\n", f.String(), cl.String(), len(c.P.Callees(cl)))
			}
			var cands []*ssa.Function
			if sf := cl.Call.StaticCallee(); sf != nil {
				cands = []*ssa.Function{sf}
			} else if cl.Call.IsInvoke() {
				cands = c.P.Callees(cl)
			}
			for idx := 0; idx < nres-1; idx++ {
				rt := sig.Results().At(idx).Type()
				if !nilable(rt) {
					continue
				}
				var who *ssa.Function
				for _, g := range cands {
					if inModule(g) && mayReturnNilWithErr(g, idx) {
						who = g
					}
				}
				if os.Getenv("DHCPVERIF_NILDEBUG") != "" {
					fmt.Fprintf(os.Stderr, "  idx=%d who=%v\n", idx, who)
				}
				if who == nil {
					continue
				}
				v := extractOf(cl, idx)
				if v == nil {
					continue
				}
				uses := derefUses(v)
				uses = append(uses, argDerefUses(c.P, v)...)
				if os.Getenv("DHCPVERIF_NILDEBUG") != "" {
					fmt.Fprintf(os.Stderr, "  uses=%d\n", len(uses))
				}
				if _, isPtr := rt.Underlying().(*types.Pointer); isPtr {
					for _, ref := range *v.Referrers() {
						if mi, ok := ref.(*ssa.MakeInterface); ok {
							// the boxed nil pointer handed on (argument, store, return): a later method call through it dereferences nil
							passed := false
							for _, r2 := range *mi.Referrers() {
								switch r2.(type) {
								case *ssa.Call, *ssa.Go, *ssa.Defer, *ssa.Store, *ssa.Return, *ssa.Send:
									passed = true
								}
							}
							if passed {
								uses = append(uses, mi)
							}
						}
					}
				}
				for _, use := range uses {
					res.nNil++
					key := e.descr(use, "nil-use", "result of "+shortName(who)+" (error dropped) used by "+useDesc(use), ord)
					if nilGuarded(use, v) {
						e.close(use, key, "D8 compared with nil on a dominating edge", "", false)
					} else {
						e.open(use, key, "the error returned by "+shortName(who)+" is dropped; when it fails the result is nil and is dereferenced (or boxed and handed on) here")
					}
				}
			}
		})
	}
	// (c) local variables that may still hold their nil zero value: φ with a nil edge
	for _, f := range funcs {
		if inUio(f) {
			continue
		}
		ord := map[string]int{}
		allInstrs(f, func(in ssa.Instruction) {
			ph, ok := in.(*ssa.Phi)
			if !ok || !nilable(ph.Type()) || isErrorType(ph.Type()) {
				return
			}
			hasNil := false
			for _, ed := range ph.Edges {
				if isNilConst(ed) {
					hasNil = true
				}
			}
			if !hasNil {
				return
			}
			uses := append(derefUses(ph), argDerefUses(c.P, ph)...)
			uses = append(uses, varargDerefUses(c.P, ph)...)
			for _, use := range uses {
				res.nNil++
				name := ph.Comment
				if name == "" {
					name = "φ"
				}
				key := e.descr(use, "nil-use", "variable "+name+" used by "+useDesc(use), ord)
				if nilGuarded(use, ph) {
					e.close(use, key, "D8 compared with nil on a dominating edge", "", false)
				} else {
					e.open(use, key, "the variable may still be nil on a path reaching this dereference")
				}
			}
		})
	}
	// (b) pointer fields a decoder may leave nil on a success path, dereferenced by readers
	e4NilFields(e, funcs, res)
}

// argDerefUses: calls that pass v as an argument (not the receiver) to a module function which dereferences
// that parameter without a nil check (followed through at most three forwarding calls)
func argDerefUses(p *Prog, v ssa.Value) []ssa.Instruction {
	var out []ssa.Instruction
	if v.Referrers() == nil {
		return nil
	}
	for _, ref := range *v.Referrers() {
		ci, ok := ref.(ssa.CallInstruction)
		if !ok {
			continue
		}
		cc := ci.Common()
		for j, a := range cc.Args {
			if a != v {
				continue
			}
			pi := j
			if cc.IsInvoke() {
				pi = j + 1
			} else if f := cc.StaticCallee(); f != nil && f.Signature.Recv() != nil && j == 0 {
				continue // receiver: judged by derefUses
			}
			hit := false
			for _, g := range p.Callees(ci) {
				if inModule(g) && paramDerefs(p, g, pi, 0) {
					hit = true
				}
			}
			if hit {
				out = append(out, ref)
			}
		}
	}
	return out
}

func paramDerefs(p *Prog, g *ssa.Function, i, depth int) bool {
	if g.Blocks == nil || i >= len(g.Params) || depth > 3 {
		return false
	}
	prm := g.Params[i]
	if !nilable(prm.Type()) {
		return false
	}
	for _, u := range derefUses(prm) {
		if !nilGuarded(u, prm) {
			return true
		}
	}
	for _, ref := range *prm.Referrers() {
		ci, ok := ref.(ssa.CallInstruction)
		if !ok || nilGuarded(ref, prm) {
			continue
		}
		cc := ci.Common()
		for j, a := range cc.Args {
			if a != prm {
				continue
			}
			pi := j
			if cc.IsInvoke() {
				pi = j + 1
			} else if f := cc.StaticCallee(); f != nil && f.Signature.Recv() != nil && j == 0 {
				continue
			}
			for _, h := range p.Callees(ci) {
				if inModule(h) && h != g && paramDerefs(p, h, pi, depth+1) {
					return true
				}
			}
		}
	}
	return false
}

func useDesc(in ssa.Instruction) string {
	switch u := in.(type) {
	case *ssa.FieldAddr:
		if st := derefStruct(u.X.Type()); st != nil {
			return "field access ." + st.Field(u.Field).Name()
		}
	case *ssa.Call:
		cc := u.Common()
		if cc.IsInvoke() {
			return "call ." + cc.Method.Name() + "()"
		}
		if f := cc.StaticCallee(); f != nil {
			return "call ." + f.Name() + "()"
		}
	case *ssa.UnOp:
		return "dereference"
	case *ssa.MakeInterface:
		return "conversion to " + types.TypeString(u.Type(), shortQual)
	}
	return fmt.Sprintf("%T", in)
}

// e4NilFields: for each struct type T with a decoder (*T).FromBytes/Unmarshal in the closure and each
// pointer/interface field F that some closure function dereferences unguarded when reading it from a T:
// every success return of the decoder must be dominated by a store to F.
func e4NilFields(e *e4Engine, funcs []*ssa.Function, res *e4Result) {
	c := e.c
	type fieldKey struct {
		t *types.Named
		i int
	}
	readers := map[fieldKey][]ssa.Instruction{}
	for _, f := range funcs {
		if inUio(f) {
			continue
		}
		allInstrs(f, func(in ssa.Instruction) {
			u, ok := in.(*ssa.UnOp)
			if !ok || u.Op != token.MUL {
				return
			}
			fa, ok := u.X.(*ssa.FieldAddr)
			if !ok || !nilable(u.Type()) {
				return
			}
			pt, ok := fa.X.Type().Underlying().(*types.Pointer)
			if !ok {
				return
			}
			n, ok := pt.Elem().(*types.Named)
			if !ok || n.Obj().Pkg() == nil || !strings.HasPrefix(n.Obj().Pkg().Path(), modPath) {
				return
			}
			for _, use := range derefUses(u) {
				if !nilGuarded(use, u) {
					readers[fieldKey{n, fa.Field}] = append(readers[fieldKey{n, fa.Field}], use)
				}
			}
		})
	}
	for _, f := range funcs {
		if f.Parent() != nil || f.Signature.Recv() == nil {
			continue
		}
		if !(strings.HasPrefix(f.Name(), "FromBytes") || f.Name() == "Unmarshal") {
			continue
		}
		n := recvNamed(f)
		st, ok := n.Underlying().(*types.Struct)
		if !ok {
			continue
		}
		if _, isPtr := f.Signature.Recv().Type().(*types.Pointer); !isPtr {
			continue
		}
		ord := map[string]int{}
		for i := 0; i < st.NumFields(); i++ {
			rd := readers[fieldKey{n, i}]
			if len(rd) == 0 {
				continue
			}
			res.nNil++
			fname := st.Field(i).Name()
			// stores to recv.F
			var stores []*ssa.Store
			allInstrs(f, func(in ssa.Instruction) {
				if s, ok := in.(*ssa.Store); ok {
					if fa, ok := s.Addr.(*ssa.FieldAddr); ok && fa.Field == i && fa.X == ssa.Value(f.Params[0]) {
						if !isNilConst(s.Val) {
							stores = append(stores, s)
						}
					}
				}
			})
			bad := ""
			for _, r := range returnsOf(f) {
				errv := r.Results[len(r.Results)-1]
				if k, ok := errv.(*ssa.Const); ok && k.Value != nil {
					continue
				}
				if !isErrorType(errv.Type()) {
					continue
				}
				// definitely-error returns: value is a fresh error (fmt.Errorf/errors.New) or a checked non-nil err
				if definitelyError(errv, r) {
					continue
				}
				dom := false
				for _, s := range stores {
					if instrDominates(s, r) && storedNonNilAt(s, r) {
						dom = true
					}
				}
				if !dom {
					bad = c.P.ipos(r)
				}
			}
			key := e.descr(f.Blocks[0].Instrs[0], "decoder sets pointer field", n.Obj().Name()+"."+fname, ord)
			if bad == "" {
				e.close(f.Blocks[0].Instrs[0], key, "D8 every success return is dominated by a store to the field", fmt.Sprintf("%d unguarded reader(s), e.g. %s", len(rd), c.P.ipos(rd[0])), false)
			} else {
				e.open(r0(f), key, fmt.Sprintf("%s can return success (at %s) leaving %s.%s nil, but %d reader(s) dereference it without a nil check (e.g. %s in %s)",
					shortName(f), bad, n.Obj().Name(), fname, len(rd), c.P.ipos(rd[0]), shortName(rd[0].Parent())))
			}
		}
	}
}

func r0(f *ssa.Function) ssa.Instruction { return f.Blocks[0].Instrs[0] }

// definitelyError: the returned error value is known non-nil at this return
func definitelyError(v ssa.Value, r *ssa.Return) bool {
	switch x := v.(type) {
	case *ssa.Call:
		if f := x.Call.StaticCallee(); f != nil {
			k := funcKey(f)
			if k == "fmt.Errorf" || k == "errors.New" {
				return true
			}
		}
	case *ssa.MakeInterface:
		return true
	case *ssa.UnOp:
		if _, ok := x.X.(*ssa.Global); ok {
			return true // package-level sentinel error
		}
	}
	// err != nil established on the path
	fn := r.Parent()
	for _, b := range fn.Blocks {
		if iff := ifOf(b); iff != nil {
			if _, nn, ok := nilEdgesOf(iff, func(y ssa.Value) bool { return y == v }); ok && mustPassEdges(fn, r.Block(), nn) {
				return true
			}
		}
	}
	return false
}

// ---------------------------------------------------------------------------
// E7 loop audit

func e7Loops(c *Ctx, rule string, funcs []*ssa.Function) {
	r := c.R
	nLoops := 0
	for _, f := range funcs {
		if inUio(f) {
			continue
		}
		// loop headers: blocks that are targets of a back edge (dominate a predecessor)
		ord := map[string]int{}
		for _, b := range f.Blocks {
			isHeader := false
			for _, p := range b.Preds {
				if b.Dominates(p) {
					isHeader = true
				}
			}
			if !isHeader {
				continue
			}
			nLoops++
			loop := sccOf(b)
			kind, why := classifyLoop(c, f, b, loop)
			base := shortName(f) + ": loop " + kind
			ord[base]++
			key := base
			if ord[base] > 1 {
				key = fmt.Sprintf("%s #%d", base, ord[base])
			}
			pos := c.P.ipos(b.Instrs[len(b.Instrs)-1])
			switch kind {
			case "range", "lexer-progress", "counter", "slice-shrink":
				r.OK(rule, key, pos, "E7 "+why, "")
			default:
				full := rule + ": " + key
				led, _ := loadLedger(c.Verif)
				if le, ok := led[full]; ok {
					r.Ledger(rule, key, pos, "ledger", le.Reason)
				} else {
					r.Violation(rule, key, pos, "loop is not a range loop, a Lexer loop that consumes input on every iteration, or a counter loop: termination not established ("+why+")")
				}
			}
		}
	}
	r.Count(rule+"-loops", nLoops)
	r.Expect(rule+"-loops", 80)
	// recursion: cycles of the closure's call graph
	e7Recursion(c, rule, funcs)
}

func classifyLoop(c *Ctx, f *ssa.Function, hdr *ssa.BasicBlock, loop map[*ssa.BasicBlock]bool) (string, string) {
	// range over slice/array/string/map/int: go/ssa emits a Next or an index phi compared with len
	for b := range loop {
		for _, in := range b.Instrs {
			if _, ok := in.(*ssa.Next); ok {
				return "range", "range over map/string"
			}
		}
	}
	// exits of the loop
	var exits []*ssa.If
	for b := range loop {
		iff := ifOf(b)
		if iff == nil {
			continue
		}
		for _, s := range b.Succs {
			if !loop[s] {
				exits = append(exits, iff)
			}
		}
	}
	_ = c.Sx()
	for _, iff := range exits {
		bo, ok := iff.Cond.(*ssa.BinOp)
		if ok {
			// i < len(x) / i < n with i = phi(c, i+1) (rangeindex loops and classic for loops)
			for _, side := range []ssa.Value{bo.X, bo.Y} {
				if ph, ok := side.(*ssa.Phi); ok && loop[ph.Block()] {
					if stepsMonotone(ph, loop) {
						return "counter", "induction variable with a constant step compared with a bound"
					}
				}
				// i+1 < len: rangeindex form compares the incremented value
				if b2, ok := side.(*ssa.BinOp); ok && (b2.Op == token.ADD || b2.Op == token.SUB) {
					if ph, ok := b2.X.(*ssa.Phi); ok && loop[ph.Block()] && stepsMonotone(ph, loop) {
						return "counter", "induction variable with a constant step compared with a bound"
					}
				}
			}
			// for buf.Len() >= k
			for _, side := range []ssa.Value{bo.X, bo.Y} {
				if cl, ok := side.(*ssa.Call); ok {
					if sf := cl.Call.StaticCallee(); sf != nil && strings.HasSuffix(funcKey(sf), "uio.Buffer).Len") {
						other := bo.Y
						if side == bo.Y {
							other = bo.X
						}
						if k, ok := intConst(other); ok && ((bo.Op == token.GEQ && k >= 1) || (bo.Op == token.GTR && k >= 0) || (bo.Op == token.LSS && k >= 1) || (bo.Op == token.LEQ && k >= 0)) {
							if lexerProgress(hdr, loop, cl.Call.Args[0]) {
								return "lexer-progress", "for buf.Len() >= k with a Lexer read on every path back to the header"
							}
							return "unknown", "a path through the body returns to the header without a Lexer read"
						}
					}
				}
			}
			// for len(data) > 0 { data = data[n:] } with n >= 1 on every path back to the header
			if ok, why := sliceShrinkLoop(c, iff, bo, hdr, loop); ok {
				return "slice-shrink", why
			}
		}
		// for buf.Has(k): every path of the body performs a Lexer read
		if cl, ok := iff.Cond.(*ssa.Call); ok {
			if sf := cl.Call.StaticCallee(); sf != nil && strings.HasSuffix(funcKey(sf), "uio.Buffer).Has") {
				if k, ok := intConst(cl.Call.Args[1]); ok && k >= 1 {
					if lexerProgress(hdr, loop, cl.Call.Args[0]) {
						return "lexer-progress", fmt.Sprintf("for buf.Has(%d) with a Lexer read on every path back to the header", k)
					}
					return "unknown", "a path through the body returns to the header without a Lexer read"
				}
			}
		}
	}
	return "unknown", "unrecognised loop shape"
}

// sliceShrinkLoop: the exit test is len(D) > 0 (≠ 0) for a slice D carried round the loop, and every value D
// takes on a back edge is D[n:] with n >= 1 (bounds prover): the slice gets strictly shorter
func sliceShrinkLoop(c *Ctx, iff *ssa.If, bo *ssa.BinOp, hdr *ssa.BasicBlock, loop map[*ssa.BasicBlock]bool) (bool, string) {
	var d ssa.Value
	for _, pair := range [][2]ssa.Value{{bo.X, bo.Y}, {bo.Y, bo.X}} {
		if x, ok := lenArg(pair[0]); ok {
			if k, isK := intConst(pair[1]); isK && k == 0 {
				d = x
			}
		}
	}
	if d == nil {
		return false, ""
	}
	switch bo.Op {
	case token.GTR, token.LSS, token.NEQ:
	default:
		return false, ""
	}
	ph, ok := d.(*ssa.Phi)
	if !ok || !loop[ph.Block()] {
		return false, ""
	}
	e, err := newE4(c, "E7")
	if err != nil {
		return false, ""
	}
	pr := e.prover()
	n := 0
	for i, ev := range ph.Edges {
		pred := ph.Block().Preds[i]
		if !loop[pred] {
			continue
		}
		sl, ok := ev.(*ssa.Slice)
		if !ok || sl.X != ssa.Value(ph) || sl.Low == nil {
			return false, ""
		}
		if pr.lower(sl.Low, pr.factsOnEdge(pred, ph.Block()), 0) < 1 {
			// the low bound may also be established at the slice instruction itself
			if pr.lower(sl.Low, pr.factsAt(sl.Block()), 0) < 1 {
				return false, ""
			}
		}
		n++
	}
	if n == 0 {
		return false, ""
	}
	return true, "loop while len(data) > 0 whose every back edge re-slices data[n:] with n >= 1"
}

func stepsMonotone(ph *ssa.Phi, loop map[*ssa.BasicBlock]bool) bool {
	n := 0
	for i, e := range ph.Edges {
		if !loop[ph.Block().Preds[i]] {
			continue // initial value
		}
		bo, ok := e.(*ssa.BinOp)
		if !ok || (bo.Op != token.ADD && bo.Op != token.SUB) || bo.X != ssa.Value(ph) {
			return false
		}
		k, ok := intConst(bo.Y)
		if !ok || k <= 0 {
			return false
		}
		n++
	}
	return n > 0
}

// lexerProgress: every path from the header's body successor back to the header passes a consuming Lexer call
func lexerProgress(hdr *ssa.BasicBlock, loop map[*ssa.BasicBlock]bool, buf ssa.Value) bool {
	consuming := map[*ssa.BasicBlock]bool{}
	for b := range loop {
		for _, in := range b.Instrs {
			cl, ok := in.(*ssa.Call)
			if !ok {
				continue
			}
			if sf := cl.Call.StaticCallee(); sf != nil {
				k := funcKey(sf)
				for _, m := range []string{"Read8", "Read16", "Read32", "Read64", "Consume", "CopyN", "ReadAll", "ReadBytes"} {
					if strings.HasSuffix(k, "uio.Lexer)."+m) {
						// Consume/CopyN with a possibly zero size do not guarantee progress alone
						if (m == "Consume" || m == "CopyN") && len(cl.Call.Args) > 1 {
							if kk, ok := intConst(cl.Call.Args[1]); !ok || kk <= 0 {
								continue
							}
						}
						consuming[b] = true
					}
				}
				// in-module callee that receives the Lexer and reads from it (Unmarshal(buf))
				if inModule(sf) && sf.Blocks != nil {
					for _, a := range cl.Call.Args {
						if isLexerPtr(a.Type()) && calleeReadsLexer(sf, 0) {
							consuming[b] = true
						}
					}
				}
			}
		}
	}
	if consuming[hdr] {
		return true
	}
	for _, s := range hdr.Succs {
		if !loop[s] {
			continue
		}
		if consuming[s] {
			continue
		}
		if reachFrom(s, nil, consuming)[hdr] {
			return false
		}
	}
	return true
}

func calleeReadsLexer(f *ssa.Function, depth int) bool {
	if depth > 2 {
		return false
	}
	// first instruction-level check: entry block dominates a fixed-width read
	for _, in := range f.Blocks[0].Instrs {
		if cl, ok := in.(*ssa.Call); ok {
			if sf := cl.Call.StaticCallee(); sf != nil {
				k := funcKey(sf)
				for _, m := range []string{"Read8", "Read16", "Read32", "Read64"} {
					if strings.HasSuffix(k, "uio.Lexer)."+m) {
						return true
					}
				}
			}
		}
	}
	return false
}

func e7Recursion(c *Ctx, rule string, funcs []*ssa.Function) {
	r := c.R
	in := map[*ssa.Function]bool{}
	for _, f := range funcs {
		in[f] = true
	}
	succ := map[*ssa.Function][]*ssa.Function{}
	for _, f := range funcs {
		seen := map[*ssa.Function]bool{}
		allInstrs(f, func(i ssa.Instruction) {
			if ci, ok := i.(ssa.CallInstruction); ok {
				for _, g := range c.P.Callees(ci) {
					if in[g] && !seen[g] {
						seen[g] = true
						succ[f] = append(succ[f], g)
					}
				}
			}
		})
	}
	// Tarjan SCC
	index, low := map[*ssa.Function]int{}, map[*ssa.Function]int{}
	on := map[*ssa.Function]bool{}
	var stack []*ssa.Function
	n := 0
	var sccs [][]*ssa.Function
	var strong func(v *ssa.Function)
	strong = func(v *ssa.Function) {
		n++
		index[v], low[v] = n, n
		stack = append(stack, v)
		on[v] = true
		for _, w := range succ[v] {
			if index[w] == 0 {
				strong(w)
				if low[w] < low[v] {
					low[v] = low[w]
				}
			} else if on[w] && index[w] < low[v] {
				low[v] = index[w]
			}
		}
		if low[v] == index[v] {
			var comp []*ssa.Function
			for {
				w := stack[len(stack)-1]
				stack = stack[:len(stack)-1]
				on[w] = false
				comp = append(comp, w)
				if w == v {
					break
				}
			}
			self := false
			for _, w := range succ[v] {
				if w == v {
					self = true
				}
			}
			if len(comp) > 1 || self {
				sccs = append(sccs, comp)
			}
		}
	}
	for _, f := range funcs {
		if index[f] == 0 {
			strong(f)
		}
	}
	// frozen, argued cycles: every member must belong to the allowed families
	allowed := func(f *ssa.Function) (bool, string) {
		k := shortName(f)
		switch {
		case strings.Contains(k, "dhcpv6.") && (strings.Contains(k, "FromBytes") || strings.Contains(k, "ParseOption") || strings.Contains(k, "parseNTPSuboption") || strings.Contains(k, "vendParseOption")):
			return true, "decoding recursion: each level parses a strictly shorter slice (the value of an option of the enclosing list, at least 4 bytes shorter)"
		case strings.Contains(k, "dhcpv4.") && strings.Contains(k, "FromBytes"), strings.Contains(k, "fromBytesCheckEnd"):
			return true, "decoding recursion through OptDHCPv4Msg: strictly shorter slice per level"
		case strings.HasSuffix(k, ".ToBytes") || strings.HasSuffix(k, ".String") || strings.HasSuffix(k, ".LongString") || strings.HasSuffix(k, ".Summary") || strings.HasSuffix(k, ".SummaryWithVendor") ||
			strings.HasSuffix(k, ".ToString") || strings.HasSuffix(k, ".Stringify") || strings.Contains(k, "Humanizer") || strings.Contains(k, "getOption") || strings.HasSuffix(k, ".Marshal") || strings.Contains(k, "$"):
			return true, "structural recursion over the finite tree of a decoded value (nested options / relay messages)"
		case strings.HasSuffix(k, ".GetInnerMessage") || strings.Contains(k, "DecapsulateRelay") || strings.HasSuffix(k, ".IsNetboot") || strings.HasSuffix(k, ".GetOption") || strings.HasSuffix(k, ".GetOneOption"):
			return true, "recursion over the finite relay nesting of a decoded value"
		}
		return false, ""
	}
	for _, comp := range sccs {
		sortFuncs(comp)
		var names []string
		okAll := true
		why := ""
		inComp := map[*ssa.Function]bool{}
		for _, f := range comp {
			inComp[f] = true
		}
		okF := map[*ssa.Function]bool{}
		for _, f := range comp {
			names = append(names, shortName(f))
			if ok, w := allowed(f); ok {
				okF[f] = true
				why = w
			}
		}
		// an unexported helper split off a member (every caller inside the analysed closure is an accepted
		// member of this cycle) descends through the same structure as that member
		for changed := true; changed; {
			changed = false
			for _, f := range comp {
				if okF[f] || token.IsExported(f.Name()) {
					continue
				}
				callers, allOK := 0, true
				for g, ss := range succ {
					for _, h := range ss {
						if h == f {
							callers++
							if !(inComp[g] && okF[g]) {
								allOK = false
							}
						}
					}
				}
				if callers > 0 && allOK {
					okF[f] = true
					changed = true
				}
			}
		}
		for _, f := range comp {
			if !okF[f] {
				okAll = false
			}
		}
		key := "recursion cycle {" + strings.Join(names, ", ") + "}"
		if len(key) > 300 {
			key = key[:300] + "…}"
		}
		if okAll {
			r.Ledger(rule, key, c.P.pos(comp[0].Pos()), "frozen recursion families", why)
		} else {
			r.Violation(rule, key, c.P.pos(comp[0].Pos()), "a recursion cycle outside the frozen, argued set: termination on decoded input not established")
		}
	}
	r.Extra["recursion_cycles"] = len(sccs)
}

// storedNonNilAt: the value a decoder stored into a pointer field is known non-nil at the success return r. A pointer
// that came back from a call together with an error is only known non-nil where that error is known nil: r hands the
// same error on (success exactly when it is nil), or r lies behind the error's nil edge. A return that reports success
// on some value of the error (`if errors.Is(err, X) { return nil }`) accepts the nil pointer the callee returned with it.
func storedNonNilAt(s *ssa.Store, r *ssa.Return) bool {
	ex, ok := s.Val.(*ssa.Extract)
	if !ok {
		return true
	}
	call, ok := ex.Tuple.(*ssa.Call)
	if !ok {
		return true
	}
	sig := call.Call.Signature()
	n := sig.Results().Len()
	if n < 2 || !isErrorType(sig.Results().At(n-1).Type()) || ex.Index == n-1 {
		return true
	}
	errEx := extractOf(call, n-1)
	if errEx == nil {
		return true // dropped error: judged by the maybe-nil-result rule
	}
	// the error may pass through a local cell (var err error; x, err = f())
	sameErr := func(v ssa.Value) bool {
		if v == ssa.Value(errEx) {
			return true
		}
		if ph, ok := v.(*ssa.Phi); ok {
			for _, e := range ph.Edges {
				if e != ssa.Value(errEx) {
					return false
				}
			}
			return true
		}
		return false
	}
	if len(r.Results) > 0 && sameErr(r.Results[len(r.Results)-1]) {
		return true
	}
	fn := r.Parent()
	for _, b := range fn.Blocks {
		if iff := ifOf(b); iff != nil {
			if nilE, _, ok := nilEdgesOf(iff, func(y ssa.Value) bool { return y == ssa.Value(errEx) }); ok && mustPassEdges(fn, r.Block(), nilE) {
				return true
			}
		}
	}
	return false
}

// varargDerefUses: calls that pass v as one of the variadic arguments of a module function which dereferences the
// elements of that parameter without a nil check (for _, m := range msgs { m.F … })
func varargDerefUses(p *Prog, v ssa.Value) []ssa.Instruction {
	var out []ssa.Instruction
	if v.Referrers() == nil {
		return nil
	}
	for _, ref := range *v.Referrers() {
		st, ok := ref.(*ssa.Store)
		if !ok || st.Val != v {
			continue
		}
		ia, ok := st.Addr.(*ssa.IndexAddr)
		if !ok {
			continue
		}
		al, ok := ia.X.(*ssa.Alloc)
		if !ok || al.Comment != "varargs" {
			continue
		}
		for _, r2 := range *al.Referrers() {
			sl, ok := r2.(*ssa.Slice)
			if !ok {
				continue
			}
			for _, r3 := range *sl.Referrers() {
				cl, ok := r3.(*ssa.Call)
				if !ok || cl.Call.StaticCallee() == nil {
					continue
				}
				g := cl.Call.StaticCallee()
				if !inModule(g) || g.Blocks == nil || !g.Signature.Variadic() || len(g.Params) == 0 {
					continue
				}
				prm := g.Params[len(g.Params)-1]
				if len(cl.Call.Args) == 0 || cl.Call.Args[len(cl.Call.Args)-1] != ssa.Value(sl) {
					continue
				}
				// elements of the variadic parameter dereferenced unguarded inside g
				bad := false
				allInstrs(g, func(in ssa.Instruction) {
					ld, ok := in.(*ssa.UnOp)
					if !ok || ld.Op != token.MUL {
						return
					}
					ea, ok := ld.X.(*ssa.IndexAddr)
					if !ok || ea.X != ssa.Value(prm) {
						return
					}
					for _, use := range derefUses(ld) {
						if !nilGuarded(use, ld) {
							bad = true
						}
					}
				})
				if bad {
					out = append(out, cl)
				}
			}
		}
	}
	return out
}
