#!/bin/bash
# false-alarm measurement: behaviour-preserving refactorings (/verif/refactors/<name>/patch.diff) x all checks,
# on scratch copies (6 in parallel). usage: tools/refmatrix.sh [name ...] (default all). Output /tmp/refout/<name>.txt
cd /verif
# snapshot of the analyser and its reviewed tables: edits made while the corpus runs do not leak into it
export SNAP=$(mktemp -d /tmp/snap.XXXXXX); mkdir -p $SNAP/bin $SNAP/spec; cp ${DHCPVERIF_BIN:-bin/dhcpverif} $SNAP/bin/dhcpverif; cp spec/*.json $SNAP/spec/; cp known_findings.json $SNAP/; unset DHCPVERIF_BIN
trap 'rm -rf $SNAP' EXIT
mkdir -p /tmp/refout
names="$@"; [ -z "$names" ] && names=$(ls -d refactors/*/ | xargs -n1 basename)
echo $names | tr ' ' '\n' | xargs -P 8 -I{} tools/runpatch.sh {} refactors/{}/patch.diff /tmp/refout
for name in $names; do
  props=$(grep "^VIOLATION" /tmp/refout/$name.txt | sed 's/.*property=\(C[0-9]*\).*/\1/' | sort -u | tr '\n' ' ')
  grep -q "DOES NOT APPLY" /tmp/refout/$name.txt && props="PATCH DOES NOT APPLY"
  echo "$name: ${props:-clean}"
done
