// Copyright 2023 The Go Authors. All rights reserved.
// Use of this source code is governed by a BSD-style
// license that can be found in the LICENSE file.

/*
Package inline implements inlining of Go function calls.

The client provides information about the caller and callee,
including the source text, syntax tree, and type information, and
the inliner returns the modified source file for the caller, or an
error if the inlining operation is invalid (for example because the
function body refers to names that are inaccessible to the caller).

Although this interface demands more information from the client
than might seem necessary, it enables smoother integration with
existing batch and interactive tools that have their own ways of
managing the processes of reading, parsing, and type-checking
packages. In particular, this package does not assume that the
caller and callee belong to the same token.FileSet or
types.Importer realms.

There are many aspects to a function call. It is the only construct
that can simultaneously bind multiple variables of different
explicit types, with implicit assignment conversions. (Neither var
nor := declarations can do that.) It defines the scope of control
labels, of return statements, and of defer statements. Arguments
and results of function calls may be tuples even though tuples are
not first-class values in Go, and a tuple-valued call expression
may be "spread" across the argument list of a call or the operands
of a return statement. All these unique features mean that in the
general case, not everything that can be expressed by a function
call can be expressed without one.

So, in general, inlining consists of modifying a function or method
call expression f(a1, ..., an) so that the name of the function f
is replaced ("literalized") by a literal copy of the function
declaration, with free identifiers suitably modified to use the
locally appropriate identifiers or perhaps constant argument
values.

Inlining must not change the semantics of the call. Semantics
preservation is crucial for clients such as codebase maintenance
tools that automatically inline all calls to designated functions
on a large scale. Such tools must not introduce subtle behavior
changes. (Fully inlining a call is dynamically observable using
reflection over the call stack, but this exception to the rule is
explicitly allowed.)

In many cases it is possible to entirely replace ("reduce") the
call by a copy of the function's body in which parameters have been
replaced by arguments. The inliner supports a number of reduction
strategies, and we expect this set to grow. Nonetheless, sound
reduction is surprisingly tricky.

The inliner is in some ways like an optimizing compiler. A compiler
is considered correct if it doesn't change the meaning of the
program in translation from source language to target language. An
optimizing compiler exploits the particulars of the input to
generate better code, where "better" usually means more efficient.
When a case is found in which it emits suboptimal code, the
compiler is improved to recognize more cases, or more rules, and
more exceptions to rules; this process has no end. Inlining is
similar except that "better" code means tidier code. The baseline
translation (literalization) is correct, but there are endless
rules--and exceptions to rules--by which the output can be
improved.

The following section lists some of the challenges, and ways in
which they can be addressed.

  - All effects of the call argument expressions must be preserved,
    both in their number (they must not be eliminated or repeated),
    and in their order (both with respect to other arguments, and any
    effects in the callee function).

    This must be the case even if the corresponding parameters are
    never referenced, are referenced multiple times, referenced in
    a different order from the arguments, or referenced within a
    nested function that may be executed an arbitrary number of
    times.

    Currently, parameter replacement is not applied to arguments
    with effects, but with further analysis of the sequence of
    strict effects within the callee we could relax this constraint.

  - When not all parameters can be substituted by their arguments
    (e.g. due to possible effects), if the call appears in a
    statement context, the inliner may introduce a var declaration
    that declares the parameter variables (with the correct types)
    and assigns them to their corresponding argument values.
    The rest of the function body may then follow.
    For example, the call

    f(1, 2)

    to the function

    func f(x, y int32) { stmts }

    may be reduced to

    { var x, y int32 = 1, 2; stmts }.

    There are many reasons why this is not always possible. For
    example, true parameters are statically resolved in the same
    scope, and are dynamically assigned their arguments in
    parallel; but each spec in a var declaration is statically
    resolved in sequence and dynamically executed in sequence, so
    earlier parameters may shadow references in later ones.

  - Even an argument expression as simple as ptr.x may not be
    referentially transparent, because another argument may have the
    effect of changing the value of ptr.

    This constraint could be relaxed by some kind of alias or
    escape analysis that proves that ptr cannot be mutated during
    the call.

  - Although constants are referentially transparent, as a matter of
    style we do not wish to duplicate literals that are referenced
    multiple times in the body because this undoes proper factoring.
    Also, string literals may be arbitrarily large.

  - If the function body consists of statements other than just
    "return expr", in some contexts it may be syntactically
    impossible to reduce the call. Consider:

    if x := f(); cond { ... }

    Go has no equivalent to Lisp's progn or Rust's blocks,
    nor ML's let expressions (let param = arg in body);
    its closest equivalent is func(param){body}(arg).
    Reduction strategies must therefore consider the syntactic
    context of the call.

    In such situations we could work harder to extract a statement
    context for the call, by transforming it to:

    { x := f(); if cond { ... } }

  - Similarly, without the equivalent of Rust-style blocks and
    first-class tuples, there is no general way to reduce a call
    to a function such as

    func(params)(args)(results) { stmts; return expr }

    to an expression such as

    { var params = args; stmts; expr }

    or even a statement such as

    results = { var params = args; stmts; expr }

    Consequently the declaration and scope of the result variables,
    and the assignment and control-flow implications of the return
    statement, must be dealt with by cases.

  - A standalone call statement that calls a function whose body is
    "return expr" cannot be simply replaced by the body expression
    if it is not itself a call or channel receive expression; it is
    necessary to explicitly discard the result using "_ = expr".

    Similarly, if the body is a call expression, only calls to some
    built-in functions with no result (such as copy or panic) are
    permitted as statements, whereas others (such as append) return
    a result that must be used, even if just by discarding.

  - If a parameter or result variable is updated by an assignment
    within the function body, it cannot always be safely replaced
    by a variable in the caller. For example, given

    func f(a int) int { a++; return a }

    The call y = f(x) cannot be replaced by { x++; y = x } because
    this would change the value of the caller's variable x.
    Only if the caller is finished with x is this safe.

    A similar argument applies to parameter or result variables
    that escape: by eliminating a variable, inlining would change
    the identity of the variable that escapes.

  - If the function body uses 'defer' and the inlined call is not a
    tail-call, inlining may delay the deferred effects.

  - Because the scope of a control label is the entire function, a
    call cannot be reduced if the caller and callee have intersecting
    sets of control labels. (It is possible to α-rename any
    conflicting ones, but our colleagues building C++ refactoring
    tools report that, when tools must choose new identifiers, they
    generally do a poor job.)

  - Given

    func f() uint8 { return 0 }

    var x any = f()

    reducing the call to var x any = 0 is unsound because it
    discards the implicit conversion to uint8. We may need to make
    each argument-to-parameter conversion explicit if the types
    differ. Assignments to variadic parameters may need to
    explicitly construct a slice.

    An analogous problem applies to the implicit assignments in
    return statements:

    func g() any { return f() }

    Replacing the call f() with 0 would silently lose a
    conversion to uint8 and change the behavior of the program.

  - When inlining a call f(1, x, g()) where those parameters are
    unreferenced, we should be able to avoid evaluating 1 and x
    since they are pure and thus have no effect. But x may be the
    last reference to a local variable in the caller, so removing
    it would cause a compilation error. Parameter substitution must
    avoid making the caller's local variables unreferenced (or must
    be prepared to eliminate the declaration too---this is where an
    iterative framework for simplification would really help).

  - An expression such as s[i] may be valid if s and i are
    variables but invalid if either or both of them are constants.
    For example, a negative constant index s[-1] is always out of
    bounds, and even a non-negative constant index may be out of
    bounds depending on the particular string constant (e.g.
    "abc"[4]).

    So, if a parameter participates in any expression that is
    subject to additional compile-time checks when its operands are
    constant, it may be unsafe to substitute that parameter by a
    constant argument value (#62664).

More complex callee functions are inlinable with more elaborate and
invasive changes to the statements surrounding the call expression.

TODO(adonovan): future work:

  - Handle more of the above special cases by careful analysis,
    thoughtful factoring of the large design space, and thorough
    test coverage.

  - Compute precisely (not conservatively) when parameter
    substitution would remove the last reference to a caller local
    variable, and blank out the local instead of retreating from
    the substitution.

  - Afford the client more control such as a limit on the total
    increase in line count, or a refusal to inline using the
    general approach (replacing name by function literal). This
    could be achieved by returning metadata alongside the result
    and having the client conditionally discard the change.

  - Support inlining of generic functions, replacing type parameters
    by their instantiations.

  - Support inlining of calls to function literals ("closures").
    But note that the existing algorithm makes widespread assumptions
    that the callee is a package-level function or method.

  - Eliminate explicit conversions of "untyped" literals inserted
    conservatively when they are redundant. For example, the
    conversion int32(1) is redundant when this value is used only as a
    slice index; but it may be crucial if it is used in x := int32(1)
    as it changes the type of x, which may have further implications.
    The conversions may also be important to the falcon analysis.

  - Allow non-'go' build systems such as Bazel/Blaze a chance to
    decide whether an import is accessible using logic other than
    "/internal/" path segments. This could be achieved by returning
    the list of added import paths instead of a text diff.

  - Inlining a function from another module may change the
    effective version of the Go language spec that governs it. We
    should probably make the client responsible for rejecting
    attempts to inline from newer callees to older callers, since
    there's no way for this package to access module versions.

  - Use an alternative implementation of the import-organizing
    operation that doesn't require operating on a complete file
    (and reformatting). Then return the results in a higher-level
    form as a set of import additions and deletions plus a single
    diff that encloses the call expression. This interface could
    perhaps be implemented atop imports.Process by post-processing
    its result to obtain the abstract import changes and discarding
    its formatted output.
*/
package inline
