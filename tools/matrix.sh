#!/bin/bash
# Runs every check against every seeded change and every revert-of-fix mutant (scratch copies, 6 in parallel);
# writes seeded/MATRIX.md and mutants/expect.json (the properties whose check reports each change).
cd /verif
# snapshot of the analyser and its reviewed tables: edits made while the corpus runs do not leak into it
export SNAP=$(mktemp -d /tmp/snap.XXXXXX); mkdir -p $SNAP/bin $SNAP/spec; cp ${DHCPVERIF_BIN:-bin/dhcpverif} $SNAP/bin/dhcpverif; cp spec/*.json $SNAP/spec/; cp known_findings.json $SNAP/; unset DHCPVERIF_BIN
trap 'rm -rf $SNAP' EXIT
out=${1:-/verif/seeded/MATRIX.md}
mkdir -p /tmp/mutout
ls -d seeded/*/ | sed 's|seeded/||; s|/||' > /tmp/mutout/.names; ls mutants/*.patch | sed 's|mutants/||; s|.patch||' >> /tmp/mutout/.names
ls -d seeded/*/ | sed 's|seeded/||; s|/||' | xargs -P 8 -I{} tools/runpatch.sh {} seeded/{}/patch.diff /tmp/mutout
ls mutants/*.patch | sed 's|mutants/||; s|.patch||' | xargs -P 6 -I{} tools/runpatch.sh {} mutants/{}.patch /tmp/mutout
echo "| change | intended property | properties whose check reports it | rules (first of each) |" > $out
echo "|---|---|---|---|" >> $out
python3 tools/matrix_report.py >> $out
grep -c "NONE" $out
