#!/bin/bash
# usage: confirm_seed.sh <seeded/ID-dir> <property>
# Confirms a seeded change in a scratch worktree of /repo's HEAD: it applies, builds, passes the
# existing suite, and its demonstration fails with the change and passes without it.
# Writes <dir>/meta.json. The worktree is removed afterwards.
set -u
d="$(cd "$1" && pwd)"; prop="$2"
export GOFLAGS=-mod=mod GOPROXY=off GOSUMDB=off GOTOOLCHAIN=local
wt=$(mktemp -d /tmp/confirm.XXXXXX)
git -C /repo worktree add -q --detach "$wt" HEAD || exit 2
cd "$wt"
res() { echo "$1"; }
applies=no; builds=no; suite=no; demo_with=unknown; demo_without=unknown
if git apply "$d/patch.diff" 2>/dev/null || patch -p1 -s < "$d/patch.diff" >/dev/null 2>&1; then applies=yes; fi
if [ $applies = yes ]; then
  if go build ./... >/dev/null 2>&1; then builds=yes; fi
  if go test -count=1 ./... >"$wt/.suite.log" 2>&1; then suite=pass; else suite=FAIL; fi
  demos=$(cd "$d/demo" && find . -name '*_test.go')
  pkgs=""
  for f in $demos; do mkdir -p "$(dirname "$f")"; cp "$d/demo/$f" "$f"; pkgs="$pkgs ./$(dirname "$f")"; done
  pkgs=$(echo $pkgs | tr ' ' '\n' | sort -u | tr '\n' ' ')
  if go test -count=1 -run 'Seed|seed|Demo|ZZ|Zz' $pkgs >"$wt/.demo_with.log" 2>&1; then demo_with=pass; else demo_with=FAIL; fi
  git apply -R "$d/patch.diff" 2>/dev/null || patch -R -p1 -s < "$d/patch.diff" >/dev/null 2>&1
  if go test -count=1 -run 'Seed|seed|Demo|ZZ|Zz' $pkgs >"$wt/.demo_without.log" 2>&1; then demo_without=pass; else demo_without=FAIL; fi
fi
needs=$(grep -i -m1 -A3 'needs\|manifest' "$d/notes.md" 2>/dev/null | tr '\n' ' ' | cut -c1-600 | sed 's/"/\\"/g')
cat > "$d/meta.json" <<J
{
 "property": "$prop",
 "base_commit": "$(git -C /repo rev-parse --short HEAD)",
 "patch_applies": "$applies",
 "builds_with_patch": "$builds",
 "existing_suite_with_patch": "$suite",
 "demo_with_patch": "$demo_with",
 "demo_without_patch": "$demo_without",
 "confirmed": $( [ "$applies$builds$suite$demo_with$demo_without" = "yesyespassFAILpass" ] && echo true || echo false ),
 "ran": "git apply patch.diff; go build ./...; go test -count=1 ./...; go test -run <demo> (with patch, then after git apply -R)",
 "needs_to_manifest": "$needs",
 "source": "independent sub-agent given only the property text and a scratch worktree"
}
J
cd /; git -C /repo worktree remove --force "$wt"; rm -rf "$wt"
echo "$d: applies=$applies builds=$builds suite=$suite demo_with=$demo_with demo_without=$demo_without"
